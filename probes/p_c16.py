from fractions import Fraction
import ECAgent.Batching as B
from ECAgent.Core import Model

def agg(a: int, b: int, c: int, mode: int) -> bool:
    """
    pre: 0 <= mode <= 7
    post: _
    """
    recs = [a, b, c]
    got = B._score_model_for_search(recs, B.ScoreMode(mode))
    if mode == 0: return got == min(a, min(b, c))
    if mode == 1: return got == max(a, max(b, c))
    if mode in (2, 3): return got * 3 == a + b + c
    if mode in (4, 5): return got == a + b + c
    # sample variance: sum((x-mean)^2)/(n-1) ; 3*2*var = 3*sum(x^2) - (sum x)^2 ... times 
    s = a + b + c
    return got * 6 == 3 * (a * a + b * b + c * c) - s * s

class SM(Model):
    def __init__(self, k=0):
        super().__init__()
        self.k = k
        self.complete()

def search(s0: int, s1: int, s2: int, mode: int) -> bool:
    """
    pre: mode == 0 or mode == 1
    post: _
    """
    table = [s0, s1, s2]
    best, results = B.grid_search(SM, {"k": [0, 1, 2]}, lambda m: table[m.k], mode=B.ScoreMode(mode))
    scores = [r["score"] for r in results]
    if scores != table: return False
    tgt = min(table) if mode == 0 else max(table)
    first = [i for i in range(3) if table[i] == tgt][0]
    return best is results[first]

def agg_lin(a: int, b: int, c: int, mode: int) -> bool:
    """
    pre: mode in (0, 1, 4, 5)
    post: _
    """
    return agg.__wrapped__(a, b, c, mode) if hasattr(agg, "__wrapped__") else agg(a, b, c, mode)

def agg_mean(a: int, b: int, c: int) -> bool:
    """
    post: _
    """
    return agg(a, b, c, 2)

def agg_var(a: int, b: int, c: int) -> bool:
    """
    pre: -8 <= a <= 8 and -8 <= b <= 8 and -8 <= c <= 8
    post: _
    """
    return agg(a, b, c, 6)
