import z3, time
w, h, d = z3.Ints('w h d')
x, y, z, x2, y2, z2 = z3.Ints('x y z x2 y2 z2')
def m1(e): return z3.If(e > 0, e, 1)
def inr(a, b, c): return z3.And(0 <= a, a < m1(w), 0 <= b, b < m1(h), 0 <= c, c < m1(d))
def idf(a, b, c, fixed):
    W, H = (m1(w), m1(h)) if fixed else (w, h)
    return c * W * H + b * W + a
for fixed in (False, True):
    s = z3.Solver(); s.set("timeout", 120000)
    s.add(w >= 0, h >= 0, d >= 0, inr(x, y, z), inr(x2, y2, z2), z3.Or(x != x2, y != y2, z != z2))
    s.add(idf(x, y, z, fixed) == idf(x2, y2, z2, fixed))
    t = time.time(); r = s.check(); print("fixed" if fixed else "orig", "injective?", r, round(time.time() - t, 2), s.model() if str(r) == "sat" else "")
    s = z3.Solver(); s.set("timeout", 120000)
    s.add(w >= 0, h >= 0, d >= 0, inr(x, y, z), z3.Not(z3.And(0 <= idf(x, y, z, fixed), idf(x, y, z, fixed) < m1(w) * m1(h) * m1(d))))
    t = time.time(); r = s.check(); print("   range?", r, round(time.time() - t, 2))
