from ECAgent.Core import Model, System, SystemManager

class S(System):
    def execute(self):
        self.model.log.append(self.id)

def _mk(model, i, p):
    return S("s%d" % i, model, priority=p)

def inductive_add(p0: int, p1: int, p2: int, p3: int, n: int, p: int) -> bool:
    """
    pre: 0 <= n <= 4
    pre: p0 >= p1 >= p2 >= p3
    post: _
    """
    m = Model()
    prios = [p0, p1, p2, p3][:n] if False else None
    ps = [p0, p1, p2, p3]
    q = []
    for i in range(4):
        if i < n:
            s = _mk(m, i, ps[i])
            q.append(s)
            m.systems.systems[s.id] = s
    m.systems.execution_queue = list(q)
    new = _mk(m, 9, p)
    m.systems.add_system(new)
    out = m.systems.execution_queue
    if len(out) != len(q) + 1:
        return False
    # others keep relative order
    rest = [s for s in out if s is not new]
    if len(rest) != len(q): return False
    for a, b in zip(rest, q):
        if a is not b: return False
    k = [i for i, s in enumerate(out) if s is new][0]
    for i, s in enumerate(out):
        if i < k and not (s.priority >= p): return False
        if i > k and not (s.priority < p): return False
    return m.systems.systems.get("s9") is new
