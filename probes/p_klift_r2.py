import sys, time, z3
sys.argv = sys.argv
from klift import Interp, GList
import ECAgent.Environments as E
def zmax(a, b): return z3.If(b > a, b, a)
def zabs(a): return z3.If(a < 0, -a, a)
def m1(e): return z3.If(e > 0, e, 1)
w, h, d = z3.Ints('w h d')
kind, R = sys.argv[1], int(sys.argv[2])
cx, cy, cz, r = z3.Ints('cx cy cz r'); incl = z3.Bool('incl')
env = E.DiscreteWorld.__new__(E.DiscreteWorld); env.width, env.height, env.depth = w, h, d
K = Interp(unroll=2 * R + 1)
fn = env.get_moore_neighbours if kind == "moore" else env.get_neumann_neighbours
t = time.time(); outs = K.call(fn, [(cx, cy, cz), r, incl, tuple]); lt = time.time() - t
lst = [v for g, k, v in outs if k == "return" and isinstance(v, GList)][0]
pre = z3.And(w >= 0, h >= 0, d >= 0, r >= 0, z3.Or(r <= R, z3.And(w <= 2*R+1, h <= 2*R+1, d <= 2*R+1)), 0 <= cx, cx < m1(w), 0 <= cy, cy < m1(h), 0 <= cz, cz < m1(d))
px, py, pz = z3.Ints('px py pz')
dx, dy, dz = zabs(px - cx), zabs(py - cy), zabs(pz - cz)
dist = zmax(dx, zmax(dy, dz)) if kind == "moore" else dx + dy + dz
spec = z3.And(0 <= px, px < m1(w), 0 <= py, py < m1(h), 0 <= pz, pz < m1(d), dist <= r, z3.Or(incl, dist != 0))
cnt = z3.Sum([z3.If(z3.And(g, v[0] == px, v[1] == py, v[2] == pz), 1, 0) for g, v in lst.entries])
s = z3.Solver(); s.add(pre)
t = time.time(); s.push(); s.add(z3.Or(K.unwinding)); u = s.check(); s.pop(); ut = time.time() - t
t = time.time(); s.push(); s.add(cnt != z3.If(spec, 1, 0)); e = s.check(); s.pop()
print(kind, "R=%d" % R, "lift %.1fs" % lt, len(lst.entries), "entries; unwinding", u, "%.2fs;" % ut, "exact", e, "%.1fs" % (time.time() - t))
