import p_part, runner
for part in (0, 1, 2):
    for mode in ("check", "reach"):
        p_part.PART, p_part.MODE = part, mode
        print(part, mode, runner.run(p_part.h, timeout=20)[:2])
