from ECAgent.Core import Model, Agent
from ECAgent.Environments import DiscreteWorld, PositionComponent, discrete_grid_pos_to_id

WORLDS = {}
def world(w, h, d):
    k = (w, h, d)
    if k not in WORLDS:
        WORLDS[k] = DiscreteWorld(Model(), w, h, d)
    return WORLDS[k]

def _oracle(w, h, d, c, r, incl, moore):
    out = []
    for z in range(max(d, 1)):
        for y in range(max(h, 1)):
            for x in range(max(w, 1)):
                dx, dy, dz = abs(x - c[0]), abs(y - c[1]), abs(z - c[2])
                dist = max(dx, dy, dz) if moore else dx + dy + dz
                if dist <= r and (incl or dist != 0):
                    out.append((x, y, z))
    return out

def neigh_sym_shape(w: int, h: int, d: int, cx: int, cy: int, cz: int, r: int, incl: bool, moore: bool) -> bool:
    """
    pre: 0 <= w <= 3 and 0 <= h <= 3 and 0 <= d <= 3
    pre: 0 <= cx < max(w, 1) and 0 <= cy < max(h, 1) and 0 <= cz < max(d, 1)
    pre: 0 <= r <= 4
    post: _
    """
    env = DiscreteWorld.__new__(DiscreteWorld)
    env.width, env.height, env.depth = w, h, d
    f = env.get_moore_neighbours if moore else env.get_neumann_neighbours
    got = f((cx, cy, cz), r, incl, tuple)
    return got == _oracle(w, h, d, (cx, cy, cz), r, incl, moore)
