"""Design-phase feasibility probe for engine K (NOT framework code).

A small symbolic interpreter of Python ASTs with state merging and bounded loop unrolling, applied to functions
read from /repo at run time.  Values: concrete Python objects | z3 terms | tuples.  Lists are sequences of
(guard, value).  Outcomes of a call: list of (guard, kind, payload) with kind in {"return", "raise"}.
"""
import ast
import inspect
import textwrap
import z3


class Untranslatable(Exception):
    pass


def is_sym(v):
    return isinstance(v, z3.ExprRef)


def any_sym(v):
    if is_sym(v):
        return True
    if isinstance(v, (tuple, list)):
        return any(any_sym(x) for x in v)
    if isinstance(v, GList):
        return True
    return False


def to_bool(v):
    if is_sym(v):
        if z3.is_bool(v):
            return v
        if z3.is_int(v) or z3.is_real(v):
            return v != 0
        raise Untranslatable("truthiness of %r" % v)
    return z3.BoolVal(bool(v))


def lift(v):
    """concrete number -> z3 value where needed"""
    if is_sym(v):
        return v
    if isinstance(v, bool):
        return z3.BoolVal(v)
    if isinstance(v, int):
        return z3.IntVal(v)
    raise Untranslatable("lift %r" % (v,))


def ite(c, a, b):
    """merge two values under condition c"""
    if a is b:
        return a
    if isinstance(a, tuple) and isinstance(b, tuple) and len(a) == len(b):
        return tuple(ite(c, x, y) for x, y in zip(a, b))
    if isinstance(a, GList) and isinstance(b, GList):
        return a.merge(c, b)
    if not is_sym(a) and not is_sym(b):
        try:
            if type(a) == type(b) and a == b:
                return a
        except Exception:
            pass
    try:
        la, lb = lift(a), lift(b)
    except Untranslatable:
        raise Untranslatable("cannot merge %r / %r" % (a, b))
    return z3.If(c, la, lb)


class GList:
    """guarded list: program-ordered entries (guard, value)"""

    def __init__(self, entries=None):
        self.entries = list(entries or [])

    def append(self, guard, value):
        self.entries.append((guard, value))

    def merge(self, c, other):
        # common prefix is shared by construction (both branches started from the same list)
        n = 0
        while n < len(self.entries) and n < len(other.entries) and self.entries[n] is other.entries[n]:
            n += 1
        out = list(self.entries[:n])
        out += [(z3.And(c, g), v) for g, v in self.entries[n:]]
        out += [(z3.And(z3.Not(c), g), v) for g, v in other.entries[n:]]
        return GList(out)


class Frame:
    def __init__(self, env, interp):
        self.env = env
        self.interp = interp
        self.outcomes = []          # (guard, kind, payload) -- guards relative to self.base
        self.live = z3.BoolVal(True)  # guard under which execution is still in this frame (not returned/raised)
        self.base = z3.BoolVal(True)  # guard of the call site (used for side effects only)


class Interp:
    def __init__(self, unroll=5):
        self.unroll = unroll
        self.unwinding = []   # list of z3 Bool: "loop needs more than `unroll` iterations" under its guard
        self.depth = 0

    # ---------------------------------------------------------------- calls
    def call(self, fn, args, kwargs=None, guard=None):
        kwargs = kwargs or {}
        guard = z3.BoolVal(True) if guard is None else guard
        self_obj = getattr(fn, "__self__", None)
        pyfn = getattr(fn, "__func__", fn)
        src = textwrap.dedent(inspect.getsource(pyfn))
        fdef = ast.parse(src).body[0]
        sig = inspect.signature(pyfn)
        bound = sig.bind(*(([self_obj] if self_obj is not None else []) + list(args)), **kwargs)
        bound.apply_defaults()
        env = dict(bound.arguments)
        frame = Frame(env, self)
        frame.globals = pyfn.__globals__
        frame.closure = {}
        if pyfn.__closure__:
            frame.closure = dict(zip(pyfn.__code__.co_freevars, [c.cell_contents for c in pyfn.__closure__]))
        frame.base = guard
        self.exec_block(fdef.body, frame, z3.BoolVal(True))
        # falling off the end returns None
        frame.outcomes.append((frame.live, "return", None))
        return [(z3.And(guard, g), k, p) for g, k, p in frame.outcomes]

    def call_value(self, fn, args, kwargs, frame, guard):
        """call inside an expression: must return a single merged value; raises become frame outcomes"""
        if isinstance(fn, Closure):
            outs = fn.invoke(self, args, kwargs, z3.And(frame.base, guard, frame.live))
        elif fn in (max, min):
            vals = list(args)
            acc = vals[0]
            for v in vals[1:]:
                if not any_sym(acc) and not any_sym(v):
                    acc = fn(acc, v)
                else:
                    c = (lift(v) > lift(acc)) if fn is max else (lift(v) < lift(acc))
                    acc = z3.If(c, lift(v), lift(acc))
            return acc
        elif fn is abs:
            v = args[0]
            return abs(v) if not is_sym(v) else z3.If(v < 0, -v, v)
        elif fn is int:
            v = args[0]
            if not is_sym(v):
                return int(v)
            if z3.is_int(v):
                return v
            if z3.is_real(v):   # truncation toward zero
                return z3.If(v >= 0, z3.ToInt(v), -z3.ToInt(-v))
            raise Untranslatable("int() of %r" % v)
        elif fn is isinstance:
            if is_sym(args[0]):
                t = args[1]
                if z3.is_int(args[0]):
                    return t is int or (isinstance(t, tuple) and int in t)
                if z3.is_real(args[0]):
                    return t is float
                return False
            return isinstance(*args)
        elif fn is type:
            if is_sym(args[0]):
                return int if z3.is_int(args[0]) else (bool if z3.is_bool(args[0]) else float)
            return type(args[0])
        elif fn is range:
            return ("range",) + tuple(args)
        elif fn is len and not any_sym(args[0]):
            return len(args[0])
        elif not any_sym(list(args)) and not any_sym(list(kwargs.values())):
            return fn(*args, **kwargs)        # fully concrete: run natively
        elif inspect.isfunction(fn) or inspect.ismethod(fn):
            outs = self.call(fn, args, kwargs, z3.And(frame.base, guard, frame.live))
        else:
            raise Untranslatable("call of %r with symbolic args" % (fn,))
        # fold outcomes
        val = None
        first = True
        outs = [(z3.simplify(g), k, p) for g, k, p in outs]
        outs = [o for o in outs if not z3.is_false(o[0])]
        # a raise inside the callee leaves this frame too (relative to this frame's base the guard is still valid)
        for g, kind, payload in outs:
            if kind == "raise":
                frame.outcomes.append((g, "raise", payload))
                frame.live = z3.And(frame.live, z3.Not(g))
            else:
                if first:
                    val, first = payload, False
                else:
                    val = ite(g, payload, val)
        return val

    # ---------------------------------------------------------------- statements
    def exec_block(self, stmts, frame, guard):
        for s in stmts:
            self.exec_stmt(s, frame, guard)

    def assign(self, target, value, frame, guard):
        g = z3.simplify(z3.And(guard, frame.live))
        if isinstance(target, ast.Name):
            old = frame.env.get(target.id, None)
            if z3.is_true(g) or target.id not in frame.env:
                frame.env[target.id] = value
            else:
                frame.env[target.id] = ite(g, value, old)
        elif isinstance(target, (ast.Tuple, ast.List)):
            if isinstance(value, tuple) and len(value) == len(target.elts):
                for t, v in zip(target.elts, value):
                    self.assign(t, v, frame, guard)
            else:
                raise Untranslatable("unpack %r" % (value,))
        elif isinstance(target, ast.Attribute):
            obj = self.eval(target.value, frame, guard)
            old = getattr(obj, target.attr)
            ge = z3.simplify(z3.And(frame.base, g))
            setattr(obj, target.attr, value if z3.is_true(ge) else ite(ge, value, old))
        else:
            raise Untranslatable(ast.dump(target))

    def exec_stmt(self, s, frame, guard):
        if isinstance(s, ast.Expr):
            if isinstance(s.value, ast.Constant):
                return  # docstring
            # method call with effect: list.append
            if isinstance(s.value, ast.Call) and isinstance(s.value.func, ast.Attribute) and s.value.func.attr == "append":
                lst = self.eval(s.value.func.value, frame, guard)
                val = self.eval(s.value.args[0], frame, guard)
                if isinstance(lst, GList):
                    lst.append(z3.simplify(z3.And(frame.base, guard, frame.live)), val)
                    return
            self.eval(s.value, frame, guard)
        elif isinstance(s, ast.Assign):
            v = self.eval(s.value, frame, guard)
            for t in s.targets:
                self.assign(t, v, frame, guard)
        elif isinstance(s, ast.AugAssign):
            cur = self.eval(ast.Name(id=s.target.id, ctx=ast.Load()), frame, guard) if isinstance(s.target, ast.Name) \
                else self.eval(s.target, frame, guard)
            v = self.binop(s.op, cur, self.eval(s.value, frame, guard), frame, guard)
            self.assign(s.target, v, frame, guard)
        elif isinstance(s, ast.If):
            c = self.eval(s.test, frame, guard)
            if not is_sym(c):
                self.exec_block(s.body if c else s.orelse, frame, guard)
                return
            c = to_bool(c)
            # run both arms on copies of the environment, then merge
            env0 = dict(frame.env)
            lists0 = {k: GList(v.entries) for k, v in env0.items() if isinstance(v, GList)}
            live0 = frame.live
            frame.env = dict(env0); frame.env.update({k: GList(v.entries) for k, v in lists0.items()})
            self.exec_block(s.body, frame, z3.And(guard, c))
            env_t, live_t = frame.env, frame.live
            frame.env = dict(env0); frame.env.update({k: GList(v.entries) for k, v in lists0.items()})
            frame.live = live0
            self.exec_block(s.orelse, frame, z3.And(guard, z3.Not(c)))
            env_f, live_f = frame.env, frame.live
            merged = {}
            for k in set(env_t) | set(env_f):
                if k in env_t and k in env_f:
                    a, b = env_t[k], env_f[k]
                    if isinstance(a, GList) and isinstance(b, GList):
                        base = lists0.get(k, GList()).entries
                        n = len(base)
                        merged[k] = GList(a.entries[:n] + a.entries[n:] + b.entries[n:])  # guards already carry c / not c
                    else:
                        merged[k] = ite(c, a, b)
                else:
                    merged[k] = env_t.get(k, env_f.get(k))
            frame.env = merged
            frame.live = z3.simplify(z3.If(c, live_t, live_f))
        elif isinstance(s, ast.For):
            it = self.eval(s.iter, frame, guard)
            if isinstance(it, tuple) and it and it[0] == "range":
                lo, hi = (0, it[1]) if len(it) == 2 else (it[1], it[2])
                if not is_sym(lo) and not is_sym(hi):
                    for i in range(lo, hi):
                        self.assign(s.target, i, frame, guard)
                        self.exec_block(s.body, frame, guard)
                    return
                for i in range(self.unroll):
                    gi = z3.And(guard, lift(lo) + i < lift(hi))
                    # loop variable is only meaningful under gi; assign unconditionally inside the guarded body
                    frame.env[s.target.id] = z3.simplify(lift(lo) + i)
                    self.exec_block(s.body, frame, gi)
                self.unwinding.append(z3.And(frame.base, guard, frame.live, lift(lo) + self.unroll < lift(hi)))
            else:
                for x in it:
                    self.assign(s.target, x, frame, guard)
                    self.exec_block(s.body, frame, guard)
        elif isinstance(s, ast.Return):
            v = self.eval(s.value, frame, guard) if s.value is not None else None
            g = z3.simplify(z3.And(guard, frame.live))
            frame.outcomes.append((g, "return", v))
            frame.live = z3.simplify(z3.And(frame.live, z3.Not(guard)))
        elif isinstance(s, ast.Raise):
            exc = s.exc
            name = exc.func.id if isinstance(exc, ast.Call) else exc.id
            g = z3.simplify(z3.And(guard, frame.live))
            frame.outcomes.append((g, "raise", name))
            frame.live = z3.simplify(z3.And(frame.live, z3.Not(guard)))
        elif isinstance(s, ast.FunctionDef):
            frame.env[s.name] = Closure(s, frame)
        elif isinstance(s, ast.Pass):
            pass
        else:
            raise Untranslatable(type(s).__name__)

    # ---------------------------------------------------------------- expressions
    def binop(self, op, a, b, frame, guard):
        if not is_sym(a) and not is_sym(b):
            import operator
            return {ast.Add: operator.add, ast.Sub: operator.sub, ast.Mult: operator.mul, ast.Mod: operator.mod,
                    ast.FloorDiv: operator.floordiv}[type(op)](a, b)
        a, b = lift(a), lift(b)
        if isinstance(op, ast.Add): return a + b
        if isinstance(op, ast.Sub): return a - b
        if isinstance(op, ast.Mult): return a * b
        if isinstance(op, ast.Mod):
            g = z3.simplify(z3.And(guard, frame.live, b == 0))
            if not z3.is_false(g):
                frame.outcomes.append((g, "raise", "ZeroDivisionError"))
            # python floor-mod: result has the sign of b; z3 mod is euclidean (>=0)
            m = a % b
            return z3.If(z3.And(b < 0, m != 0), m + b, m)
        raise Untranslatable(type(op).__name__)

    def compare(self, op, a, b):
        if isinstance(a, tuple) and isinstance(b, tuple) and isinstance(op, (ast.Eq, ast.NotEq)):
            if len(a) != len(b):
                return isinstance(op, ast.NotEq)
            eq = z3.And([to_bool(self.compare(ast.Eq(), x, y)) for x, y in zip(a, b)])
            return eq if isinstance(op, ast.Eq) else z3.Not(eq)
        if not is_sym(a) and not is_sym(b):
            import operator
            return {ast.Lt: operator.lt, ast.LtE: operator.le, ast.Gt: operator.gt, ast.GtE: operator.ge, ast.Eq: operator.eq,
                    ast.NotEq: operator.ne, ast.Is: operator.is_, ast.IsNot: operator.is_not,
                    ast.In: lambda x, y: x in y, ast.NotIn: lambda x, y: x not in y}[type(op)](a, b)
        if isinstance(op, (ast.Eq, ast.NotEq)) and (a is int or a is tuple or b is int or b is tuple or a is None or b is None):
            return isinstance(op, ast.NotEq)
        a, b = lift(a), lift(b)
        if isinstance(op, ast.Lt): return a < b
        if isinstance(op, ast.LtE): return a <= b
        if isinstance(op, ast.Gt): return a > b
        if isinstance(op, ast.GtE): return a >= b
        if isinstance(op, ast.Eq): return a == b
        if isinstance(op, ast.NotEq): return a != b
        raise Untranslatable(type(op).__name__)

    def eval(self, e, frame, guard):
        if isinstance(e, ast.Constant):
            return e.value
        if isinstance(e, ast.Name):
            if e.id in frame.env: return frame.env[e.id]
            if e.id in frame.closure: return frame.closure[e.id]
            if e.id in frame.globals: return frame.globals[e.id]
            import builtins
            return getattr(builtins, e.id)
        if isinstance(e, ast.Attribute):
            return getattr(self.eval(e.value, frame, guard), e.attr)
        if isinstance(e, ast.Tuple):
            return tuple(self.eval(x, frame, guard) for x in e.elts)
        if isinstance(e, ast.List):
            return GList([(z3.BoolVal(True), self.eval(x, frame, guard)) for x in e.elts])
        if isinstance(e, ast.Subscript):
            base = self.eval(e.value, frame, guard)
            idx = self.eval(e.slice, frame, guard)
            if hasattr(base, "ksubscript"):
                return base.ksubscript(idx, self, frame, guard)
            if is_sym(idx):
                raise Untranslatable("symbolic subscript of %r" % (base,))
            return base[idx]
        if isinstance(e, ast.BinOp):
            return self.binop(e.op, self.eval(e.left, frame, guard), self.eval(e.right, frame, guard), frame, guard)
        if isinstance(e, ast.UnaryOp):
            v = self.eval(e.operand, frame, guard)
            if isinstance(e.op, ast.Not):
                return (not v) if not is_sym(v) else z3.Not(to_bool(v))
            if isinstance(e.op, ast.USub):
                return -v
            raise Untranslatable(type(e.op).__name__)
        if isinstance(e, ast.BoolOp):
            vals = [self.eval(v, frame, guard) for v in e.values]   # kernels are side-effect free
            if not any(is_sym(v) for v in vals):
                r = vals[0]
                for v in vals[1:]:
                    r = (r and v) if isinstance(e.op, ast.And) else (r or v)
                return r
            bs = [to_bool(v) for v in vals]
            return z3.And(bs) if isinstance(e.op, ast.And) else z3.Or(bs)
        if isinstance(e, ast.Compare):
            left = self.eval(e.left, frame, guard)
            parts = []
            for op, comp in zip(e.ops, e.comparators):
                right = self.eval(comp, frame, guard)
                parts.append(self.compare(op, left, right))
                left = right
            if not any(is_sym(p) for p in parts):
                return all(parts)
            return z3.And([to_bool(p) for p in parts])
        if isinstance(e, ast.IfExp):
            c = self.eval(e.test, frame, guard)
            if not is_sym(c):
                return self.eval(e.body if c else e.orelse, frame, guard)
            return ite(to_bool(c), self.eval(e.body, frame, guard), self.eval(e.orelse, frame, guard))
        if isinstance(e, ast.Call):
            fn = self.eval(e.func, frame, guard)
            args = [self.eval(a, frame, guard) for a in e.args]
            kwargs = {k.arg: self.eval(k.value, frame, guard) for k in e.keywords}
            return self.call_value(fn, args, kwargs, frame, guard)
        if isinstance(e, ast.JoinedStr):
            return "<fstring>"
        raise Untranslatable(type(e).__name__)


class Closure:
    def __init__(self, fdef, frame):
        self.fdef, self.frame = fdef, frame

    def invoke(self, interp, args, kwargs, guard):
        names = [a.arg for a in self.fdef.args.args]
        env = dict(zip(names, args)); env.update(kwargs)
        f = Frame(env, interp)
        f.globals = self.frame.globals
        f.closure = dict(self.frame.closure); f.closure.update(self.frame.env)
        f.base = guard
        interp.exec_block(self.fdef.body, f, z3.BoolVal(True))
        f.outcomes.append((f.live, "return", None))
        return [(z3.And(guard, g), k, p) for g, k, p in f.outcomes]
