import random
from ECAgent.Core import Model, Agent, Component, Environment, System
import ECAgent.Collectors as Col
import ECAgent.Batching as B
import ECAgent.Decode as D
import ECAgent.Tags as Tags

# ---------- C20 metaclass
class T1(Component): pass
def meta(tagA: int, tagC: int, explicit: int, use_explicit: bool, which: int) -> bool:
    """
    pre: 0 <= which < 3
    post: _
    """
    Agent._components.clear(); Agent._tag = 0
    class A(Agent): pass
    class C(A): pass
    class S(Agent): pass
    A.tag = tagA
    C.tag = tagC
    cls = [A, C, S][which]
    inst = cls("i", None, explicit) if use_explicit else cls("i", None)
    exp = explicit if use_explicit else [tagA, tagC, 0][which]
    A.add_class_component(T1(A, None))
    iso = (T1 in A) and (T1 not in C) and (T1 not in S) and (T1 not in Agent) and len(inst.components) == 0
    return iso and Agent.tag == 0 and S.tag == 0 and inst.tag == exp

# ---------- C17 file collector with open stub
class FakeFS:
    def __init__(self): self.files = {}
    def open(self, name, mode):
        fs = self
        if mode == 'w': fs.files[name] = []
        fs.files.setdefault(name, [])
        class F:
            def write(self, s): fs.files[name].append(s)
            def close(self): pass
        return F()

class FC(Col.FileCollector):
    def collect(self):
        for j in range(self.model.per[self.model.systems.timestep]):
            r = "t%d.%d;" % (self.model.systems.timestep, j)
            self.records.append(r); self.model.all.append(r)

class CM(Model):
    __slots__ = ['per', 'all']

def filecol(wc: int, c0: int, c1: int, c2: int, c3: int, c4: int) -> bool:
    """
    pre: wc >= 0
    pre: 0 <= c0 <= 2 and 0 <= c1 <= 2 and 0 <= c2 <= 2 and 0 <= c3 <= 2 and 0 <= c4 <= 2
    post: _
    """
    fs = FakeFS()
    Col.open = fs.open
    try:
        m = CM(); m.per = [c0, c1, c2, c3, c4]; m.all = []
        fc = FC("f", m, "out.txt", write_count=wc)
        m.systems.add_system(fc)
        for step in range(5):
            m.execute()
            written = fs.files.get("out.txt", [])
            if written + fc.records != m.all: return False
            # flush exactly after every (wc+1)-th collection
            if (step + 1) % (wc + 1) == 0 and fc.records: return False
            if (step + 1) < (wc + 1) and written: return False
        return True
    finally:
        del Col.open

# ---------- C15 batch with pool stub
class FakePool:
    order = None
    def __init__(self, n): pass
    def __enter__(self): return self
    def __exit__(self, *a): return False
    def imap_unordered(self, f, xs):
        xs = list(xs); idx = list(range(len(xs)))
        out = []
        k = 0
        while idx:
            j = FakePool.order[k] % len(idx); k += 1
            out.append(idx.pop(j))
        for i in out: yield f(xs[i])
    def imap(self, f, xs):
        for x in xs: yield f(x)

class BC(Col.Collector):
    def collect(self): self.records.append((self.model.a, self.model.b, self.model.systems.timestep))
class BM(Model):
    __slots__ = ['a', 'b', 'stop']
    def __init__(self, a, b, stop):
        super().__init__(); self.a, self.b, self.stop = a, b, stop
        self.systems.add_system(BC("c", self))
        class Stop(System):
            def execute(s):
                if s.model.systems.timestep >= s.model.stop: s.model.complete()
        self.systems.add_system(Stop("s", self, priority=5))

def batch(na: int, nb: int, reps: int, maxt: int, stop: int, procs: int, o0: int, o1: int, o2: int, o3: int, o4: int, o5: int, o6: int, o7: int) -> bool:
    """
    pre: 0 <= na <= 2 and 0 <= nb <= 2 and 0 <= reps <= 2 and 0 <= maxt <= 3 and 0 <= stop <= 3 and 1 <= procs <= 2
    pre: min(o0, o1, o2, o3, o4, o5, o6, o7) >= 0
    post: _
    """
    FakePool.order = [o0, o1, o2, o3, o4, o5, o6, o7]
    B.Pool = FakePool
    res = B.batch_run(BM, {"a": list(range(na)), "b": list(range(nb)), "stop": stop}, collectors="c", processes=procs, max_timesteps=maxt, repetitions=reps)
    steps = min(maxt, stop)  # collector (prio -1) runs at t < min(maxt, stop); at t == stop model completes before collector
    exp = [[(a, b, t) for t in range(steps)] for _ in range(reps) for a in range(na) for b in range(nb)]
    if procs == 1: return res == exp
    return sorted(res) == sorted(exp)
