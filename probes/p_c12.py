from ECAgent.Core import Model, Agent, Component
from ECAgent.Environments import SpaceWorld, PositionComponent

class T1(Component): pass
class T2(Component): pass
class T0(Component): pass

def box(ax: int, ay: int, az: int, bx: int, by: int, bz: int, qx: int, qy: int, qz: int, l: int, lx: int, ly: int, lz: int) -> bool:
    """
    post: _
    """
    m = Model(); env = SpaceWorld(m, 0, 0, 0)
    a, b = Agent("a", m), Agent("b", m)
    env.add_agent(a, ax, ay, az); env.add_agent(b, bx, by, bz)
    got = env.get_agents_at(qx, qy, qz, l, lx, ly, lz)
    def inside(p, q, gen, axl):
        L = gen if gen > axl else axl
        d = p - q
        if d < 0: d = -d
        return d <= L
    exp = [ag for ag, (x, y, z) in ((a, (ax, ay, az)), (b, (bx, by, bz))) if inside(x, qx, l, lx) and inside(y, qy, l, ly) and inside(z, qz, l, lz)]
    return len(got) == len(exp) and all(g is e for g, e in zip(got, exp))

def filt(f0: int, f1: int, f2: int, t0: int, t1: int, t2: int, tmpl: int, usetag: bool, tag: int, r: int) -> bool:
    """
    pre: 0 <= f0 < 4 and 0 <= f1 < 4 and 0 <= f2 < 4 and 0 <= tmpl < 8
    post: _
    """
    m = Model(); env = m.environment
    ags = []
    for i, (f, t) in enumerate(((f0, t0), (f1, t1), (f2, t2))):
        a = Agent("a%d" % i, m, tag=t)
        if f & 1: a.add_component(T1(a, m))
        if f & 2: a.add_component(T2(a, m))
        env.add_agent(a); ags.append((a, f, t))
    types = [T for bit, T in ((1, T1), (2, T2), (4, T0)) if tmpl & bit]
    need = tmpl & 3
    got = env.get_agents(*types, tag=(tag if usetag else None))
    exp = [a for a, f, t in ags if (f & need) == need and not (tmpl & 4) and (not usetag or t == tag)]
    if len(got) != len(exp) or any(g is not e for g, e in zip(got, exp)): return False
    got.append(None)
    return len(env) == 3 and len(env.get_agents()) == 3
