from ECAgent.Core import Model, System

class M(Model):
    __slots__ = ['log']
    def __init__(self):
        super().__init__()
        self.log = []

class S(System):
    __slots__ = ['act']
    def __init__(self, id, model, priority, act=None):
        super().__init__(id, model, priority=priority)
        self.act = act
    def execute(self):
        self.model.log.append(self.id)
        if self.act is not None:
            self.act()

def midstep(p0: int, p1: int, p2: int, actor: int, kind: int, target: int, pn: int) -> bool:
    """
    pre: 0 <= actor < 3 and 0 <= target < 3 and 0 <= kind < 3
    post: _
    """
    m = M()
    ps = [p0, p1, p2]
    ss = [S("s%d" % i, m, ps[i]) for i in range(3)]
    for s in ss:
        m.systems.add_system(s)
    before = [s.id for s in m.systems.execution_queue]
    removed = []
    def act():
        if kind == 0:
            m.systems.remove_system("s%d" % target); removed.append("s%d" % target)
        elif kind == 1:
            m.systems.add_system(S("new", m, pn))
        else:
            m.complete()
    ss[actor].act = act
    m.execute()
    log = m.log
    # no system twice
    if len(set(log)) != len(log): return False
    if kind == 2:
        # nothing after completer
        return log == before[:before.index("s%d" % actor) + 1]
    stay = [i for i in before if i not in removed]
    # every staying system runs exactly once and in order
    if [i for i in log if i in stay] != stay: return False
    # removed-before-turn does not run
    if kind == 0:
        t = "s%d" % target
        ai, ti = before.index("s%d" % actor), before.index(t)
        if ti > ai and t in log: return False
    return True
