import z3, time, itertools, sys
R = int(sys.argv[1]); moore = sys.argv[2] == "moore"
K = 2 * R + 1
w, h, d, cx, cy, cz, r = z3.Ints('w h d cx cy cz r')
incl = z3.Bool('incl')
def zmax(a, b): return z3.If(b > a, b, a)
def zmin(a, b): return z3.If(b < a, b, a)
def zabs(a): return z3.If(a < 0, -a, a)
def bounds(ext, c):
    lo = z3.If(ext > 0, zmax(0, c - r), 0)
    hi = z3.If(ext > 0, zmin(ext, c + r + 1), 1)
    return lo, hi
xl, xu = bounds(w, cx); yl, yu = bounds(h, cy); zl, zu = bounds(d, cz)
entries = []
for k in range(K):
    z = zl + k; gz = z < zu
    for j in range(K):
        y = yl + j; gy = y < yu
        for i in range(K):
            x = xl + i; gx = x < xu
            g = z3.And(gz, gy, gx)
            if not moore:
                g = z3.And(g, zabs(x - cx) + zabs(y - cy) + zabs(z - cz) < r + 1)
            isc = z3.And(cx == x, cy == y, cz == z)
            g = z3.And(g, z3.Or(z3.Not(isc), incl))
            entries.append((g, (x, y, z)))
pre = z3.And(w >= 0, h >= 0, d >= 0, r >= 0, r <= R,
             z3.If(w > 0, z3.And(0 <= cx, cx < w), cx == 0), z3.If(h > 0, z3.And(0 <= cy, cy < h), cy == 0), z3.If(d > 0, z3.And(0 <= cz, cz < d), cz == 0))
unwind = z3.And(xl + K >= xu, yl + K >= yu, zl + K >= zu)
px, py, pz = z3.Ints('px py pz')
cnt = z3.Sum([z3.If(z3.And(g, v[0] == px, v[1] == py, v[2] == pz), 1, 0) for g, v in entries])
W1, H1, D1 = z3.If(w > 0, w, 1), z3.If(h > 0, h, 1), z3.If(d > 0, d, 1)
ingrid = z3.And(0 <= px, px < W1, 0 <= py, py < H1, 0 <= pz, pz < D1)
dx, dy, dz = zabs(px - cx), zabs(py - cy), zabs(pz - cz)
dist = zmax(dx, zmax(dy, dz)) if moore else dx + dy + dz
spec = z3.And(ingrid, dist <= r, z3.Or(incl, dist != 0))
s = z3.Solver(); s.add(pre)
t = time.time()
s.push(); s.add(z3.Not(unwind)); print("unwinding assertion:", s.check(), round(time.time() - t, 2)); s.pop()
t = time.time()
s.push(); s.add(cnt != z3.If(spec, 1, 0)); print("exactness:", s.check(), round(time.time() - t, 2)); s.pop()
