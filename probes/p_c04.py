from ECAgent.Core import Model, Agent, Component, AgentNotFoundError, DuplicateAgentError

class T1(Component): pass
class T2(Component): pass

def _snap(m):
    env = m.environment
    return ([a for a in env.agents], [id(v) for v in env.agents.values()],
            {t: [id(c) for c in l] for t, l in m.systems.component_pools.items()})

def hist(o0: int, a0: int, o1: int, a1: int, o2: int, a2: int, o3: int, a3: int, f0: int, f1: int, f2: int) -> bool:
    """
    pre: 0 <= o0 < 4 and 0 <= o1 < 4 and 0 <= o2 < 4 and 0 <= o3 < 4
    pre: 0 <= a0 < 3 and 0 <= a1 < 3 and 0 <= a2 < 3 and 0 <= a3 < 3
    pre: 0 <= f0 < 4 and 0 <= f1 < 4 and 0 <= f2 < 4
    post: _
    """
    m = Model()
    env = m.environment
    ids = ["x", "y", "x"]  # agent 2 collides with agent 0
    fl = [f0, f1, f2]
    pool = []
    for i in range(3):
        a = Agent(ids[i], m)
        if fl[i] & 1: a.add_component(T1(a, m))
        if fl[i] & 2: a.add_component(T2(a, m))
        pool.append(a)
    model_order = []  # spec state: list of resident agents in join order
    for (o, ai) in ((o0, a0), (o1, a1), (o2, a2), (o3, a3)):
        a = pool[ai]
        before = _snap(m)
        if o == 0:
            try:
                env.add_agent(a); ok = True
            except DuplicateAgentError:
                ok = False
            if ok != (all(r.id != a.id for r in model_order)): return False
            if ok: model_order.append(a)
            elif _snap(m) != before: return False
        elif o == 1:
            try:
                env.remove_agent(a.id); ok = True
            except AgentNotFoundError:
                ok = False
            exp = any(r.id == a.id for r in model_order)
            if ok != exp: return False
            if ok: model_order = [r for r in model_order if r.id != a.id]
            elif _snap(m) != before: return False
        elif o == 2:
            got = env.get_agent(a.id)
            exp = [r for r in model_order if r.id == a.id]
            if (got is None) != (not exp): return False
            if exp and got is not exp[0]: return False
        else:
            try:
                got = env.get_agent(a.id, True); ok = True
            except AgentNotFoundError:
                ok = False
            if ok != any(r.id == a.id for r in model_order): return False
            if not ok and _snap(m) != before: return False
        # global agreement
        if list(env) != model_order or len(env) != len(model_order) or env.get_agents() != model_order: return False
        for T in (T1, T2):
            exp = [r.components[T] for r in model_order if T in r.components]
            got = m.systems.get_components(T)
            if (got or None) != (exp or None): return False
            if got is not None and any(x is not y for x, y in zip(got, exp)): return False
    return True
