from ECAgent.Core import Model, System

class S(System):
    def execute(self):
        self.model.log.append((self.model.systems.timestep, self.id))

class M(Model):
    __slots__ = ['log']
    def __init__(self):
        super().__init__()
        self.log = []

def window(start: int, end: int, freq: int, t0: int) -> bool:
    """
    pre: freq >= 1
    post: _
    """
    m = M()
    m.systems.timestep = t0
    m.systems.add_system(S("a", m, frequency=freq, start=start, end=end))
    m.execute()
    ran = len(m.log)
    expect = 1 if (start <= t0 <= end and (t0 - start) % freq == 0) else 0
    return ran == expect and m.timestep == t0 + 1 and m.systems.timestep == t0 + 1 and (ran == 0 or m.log[0] == (t0, "a"))

def window_k(start: int, end: int, k: int, freq: int, t0: int) -> bool:
    """
    pre: freq >= 1 and freq <= 6
    post: _
    """
    # spec phrased without mod: exists k
    m = M()
    m.systems.timestep = t0
    m.systems.add_system(S("a", m, frequency=freq, start=start, end=end))
    m.execute()
    ran = len(m.log)
    if start <= t0 <= end and t0 - start == k * freq:
        return ran == 1
    if ran == 1:
        return start <= t0 <= end
    return True

def multi(start: int, end: int, freq: int, t0: int, n: int) -> bool:
    """
    pre: 1 <= freq
    pre: 1 <= n <= 4
    post: _
    """
    m = M()
    m.systems.timestep = t0
    m.systems.add_system(S("a", m, frequency=freq, start=start, end=end))
    m.execute(n)
    exp = [(t, "a") for t in range(t0, t0 + n) if start <= t <= end and (t - start) % freq == 0]
    return m.log == exp and m.timestep == t0 + n
