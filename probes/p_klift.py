import sys, time, z3
from klift import Interp, GList, Untranslatable
from ECAgent.Core import Model, Agent
import ECAgent.Environments as E

def zmax(a, b): return z3.If(b > a, b, a)
def zabs(a): return z3.If(a < 0, -a, a)
def m1(e): return z3.If(e > 0, e, 1)

def check(name, s, extra, expect=None):
    t = time.time(); s.push(); s.add(extra); r = s.check(); dt = time.time() - t
    info = ""
    if str(r) == "sat":
        m = s.model(); info = " model: " + ", ".join("%s=%s" % (d.name(), m[d]) for d in sorted(m.decls(), key=lambda d: d.name()))[:300]
    s.pop(); print("  %-28s %-6s %.2fs%s" % (name, r, dt, info)); return str(r)

# ------------------------------------------------------------------ C09 id formula lifted from source
x, y, z, x2, y2, z2, w, h, d = z3.Ints('x y z x2 y2 z2 w h d')
K = Interp()
def lifted_id(a, b, c):
    outs = K.call(E.discrete_grid_pos_to_id, [a, b, w, c, h])
    rets = [(g, v) for g, k, v in outs if k == "return" and v is not None]
    assert len(rets) == 1, outs
    return rets[0][1]
print("C09 discrete_grid_pos_to_id (lifted from %s)" % E.__file__)
inr = lambda a, b, c: z3.And(0 <= a, a < m1(w), 0 <= b, b < m1(h), 0 <= c, c < m1(d))
s = z3.Solver(); s.add(w >= 0, h >= 0, d >= 0, inr(x, y, z), inr(x2, y2, z2))
check("injective (expect sat=D3)", s, z3.And(z3.Or(x != x2, y != y2, z != z2), lifted_id(x, y, z) == lifted_id(x2, y2, z2)))

# ------------------------------------------------------------------ C10 neighbours lifted from source
def neigh(kind, R, ret):
    cx, cy, cz, r = z3.Ints('cx cy cz r'); incl = z3.Bool('incl')
    env = E.DiscreteWorld.__new__(E.DiscreteWorld)
    env.width, env.height, env.depth = w, h, d
    K = Interp(unroll=2 * R + 1)
    fn = env.get_moore_neighbours if kind == "moore" else env.get_neumann_neighbours
    t = time.time()
    outs = K.call(fn, [(cx, cy, cz), r, incl, ret])
    rets = [(g, v) for g, k, v in outs if k == "return" and isinstance(v, GList)]
    raises = [(g, v) for g, k, v in outs if k == "raise"]
    assert len(rets) == 1
    lst = rets[0][1]
    print("%s R=%d ret=%s: lifted in %.2fs, %d guarded entries, %d unwinding assertions, %d raise outcomes" % (kind, R, ret.__name__, time.time() - t, len(lst.entries), len(K.unwinding), len(raises)))
    pre = z3.And(w >= 0, h >= 0, d >= 0, r >= 0, r <= R, 0 <= cx, cx < m1(w), 0 <= cy, cy < m1(h), 0 <= cz, cz < m1(d))
    s = z3.Solver(); s.add(pre)
    check("pre satisfiable", s, z3.BoolVal(True))
    check("unwinding assertion", s, z3.Or(K.unwinding))
    check("no exception", s, z3.Or([g for g, _ in raises]) if raises else z3.BoolVal(False))
    px, py, pz = z3.Ints('px py pz')
    dx, dy, dz = zabs(px - cx), zabs(py - cy), zabs(pz - cz)
    dist = zmax(dx, zmax(dy, dz)) if kind == "moore" else dx + dy + dz
    spec = z3.And(0 <= px, px < m1(w), 0 <= py, py < m1(h), 0 <= pz, pz < m1(d), dist <= r, z3.Or(incl, dist != 0))
    if ret is tuple:
        hit = lambda v: z3.And(v[0] == px, v[1] == py, v[2] == pz)
    else:
        rank = pz * m1(w) * m1(h) + py * m1(w) + px
        hit = lambda v: v == rank
    cnt = z3.Sum([z3.If(z3.And(g, hit(v)), 1, 0) for g, v in lst.entries])
    if ret is tuple:
        check("exact (count == [spec])", s, cnt != z3.If(spec, 1, 0))
    else:
        # id form: the multiset of ids must be the ranks of the spec cells: probe by rank, for in-grid probes
        ingrid = z3.And(0 <= px, px < m1(w), 0 <= py, py < m1(h), 0 <= pz, pz < m1(d))
        check("id form == rank of spec cells", s, z3.And(ingrid, cnt != z3.If(spec, 1, 0)))

for kind, R, ret in (("moore", 1, tuple), ("neumann", 1, tuple), ("moore", 2, tuple), ("neumann", 2, tuple), ("moore", 1, int)):
    neigh(kind, R, ret)

# ------------------------------------------------------------------ C08 move (ints) lifted, state merging over a real PositionComponent
print("C08 SpaceWorld.move lifted")
m = Model(); env = E.SpaceWorld(m, 1, 1, 1)
env.width, env.height, env.depth = w, h, d
wrap = z3.Bool('wrap'); env.wrap_env = wrap
off = z3.Int('off'); env._index_offset = off
a = Agent("a", m)
p0 = z3.Ints('p0x p0y p0z'); dl = z3.Ints('dx dy dz')
pc = E.PositionComponent(a, m, *p0); a.add_component(pc)
K = Interp()
outs = K.call(env.move, [a, dl[0], dl[1], dl[2]])
print("  outcomes:", [(k, v) for g, k, v in outs])
s = z3.Solver()
s.add(w >= 0, h >= 0, d >= 0, z3.Or(off == 0, off == 1))
for p, e in zip(p0, (w, h, d)):
    s.add(z3.Implies(e > 0, z3.And(0 <= p, p <= e - off)))
check("no exception", s, z3.Or([g for g, k, v in outs if k == "raise"]))
bad = []
for new, p, dd, e in zip((pc.x, pc.y, pc.z), p0, dl, (w, h, d)):
    sm = p + dd
    fm = sm % e   # e>0 here
    clamp = z3.If(sm < 0, 0, z3.If(sm > e - off, e - off, sm))
    bad.append(z3.And(e > 0, z3.Or(new < 0, new > e - off, new != z3.If(wrap, fm, clamp))))
check("contain + exact (all axes)", s, z3.Or(bad))
