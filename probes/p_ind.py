from ECAgent.Core import Model, Agent, Component, AgentNotFoundError, DuplicateAgentError
from ECAgent.Environments import SpaceWorld, PositionComponent

class T1(Component): pass
class T2(Component): pass

def _snap(m, pool):
    env = m.environment
    return ([k for k in env.agents], [id(v) for v in env.agents.values()],
            {t: [id(c) for c in l] for t, l in m.systems.component_pools.items()},
            [(sorted(t.__name__ for t in a.components), [id(c) for c in a.components.values()]) for a in pool])

def step(perm: int, nres: int, f0: int, f1: int, f2: int, op: int, ai: int, x: int, y: int, z: int, w: int, h: int, d: int, grid: bool) -> bool:
    """
    pre: 0 <= perm < 6 and 0 <= nres <= 3 and 0 <= op < 4 and 0 <= ai < 4
    pre: 0 <= f0 < 4 and 0 <= f1 < 4 and 0 <= f2 < 4
    pre: w >= 0 and h >= 0 and d >= 0
    post: _
    """
    m = Model()
    env = SpaceWorld(m, w, h, d)
    if grid: env._index_offset = 1
    m.environment = env
    ids = ["p", "q", "r", "p"]   # pool agent 3 collides with agent 0
    fl = [f0, f1, f2, f0]
    pool = []
    for i in range(4):
        a = Agent(ids[i], m)
        if fl[i] & 1: a.add_component(T1(a, m))
        if fl[i] & 2: a.add_component(T2(a, m))
        pool.append(a)
    order = [(0, 1, 2), (0, 2, 1), (1, 0, 2), (1, 2, 0), (2, 0, 1), (2, 1, 0)][perm][:nres]
    # construct pre-state directly from the representation invariant
    res = []
    for i in order:
        a = pool[i]
        env.agents[a.id] = a
        for t, c in a.components.items():
            m.systems.component_pools.setdefault(t, []).append(c)
        a.components[PositionComponent] = PositionComponent(a, m, 0, 0, 0)
        res.append(a)
    a = pool[ai]
    before = _snap(m, pool)
    off = 1 if grid else 0
    def oob(v, e): return e > 0 and (v < 0 or v > e - off)
    if op == 0:
        try:
            env.add_agent(a, x, y, z); ok = True
        except DuplicateAgentError: ok = False; kind = "dup"
        except Exception: ok = False; kind = "oob"
        exp_ok = not (oob(x, w) or oob(y, h) or oob(z, d)) and all(r.id != a.id for r in res)
        if ok != exp_ok: return False
        if ok:
            res.append(a)
            if a[PositionComponent].xyz() != (x, y, z): return False
        elif _snap(m, pool) != before: return False
    elif op == 1:
        try: env.remove_agent(a.id); ok = True
        except AgentNotFoundError: ok = False
        exp_ok = any(r.id == a.id for r in res)
        if ok != exp_ok: return False
        if ok:
            gone = [r for r in res if r.id == a.id][0]
            res = [r for r in res if r.id != a.id]
            if PositionComponent in gone: return False
        elif _snap(m, pool) != before: return False
    elif op == 2:
        got = env.get_agent(a.id)
        exp = [r for r in res if r.id == a.id]
        if (got is None) != (not exp) or (exp and got is not exp[0]): return False
        if _snap(m, pool) != before: return False
    else:
        try: got = env.get_agent(a.id, True); ok = True
        except AgentNotFoundError: ok = False
        if ok != any(r.id == a.id for r in res): return False
        if _snap(m, pool) != before: return False
    if list(env) != res or len(env) != len(res) or env.get_agents() != res: return False
    for T in (T1, T2):
        exp = [r.components[T] for r in res if T in r.components]
        got = m.systems.get_components(T)
        if (got is None) != (not exp): return False
        if got is not None and (len(got) != len(exp) or any(g is not e for g, e in zip(got, exp))): return False
    return True
