import random
from ECAgent.Core import Model, Agent, Component
import ECAgent.Decode as D
import ECAgent.Batching as B

class SymRandom(random.Random):
    def __init__(self, stream):
        super().__init__(0)
        self.stream = list(stream); self.k = 0
    def _randbelow(self, n):
        v = self.stream[self.k] % n; self.k += 1
        return v

class Havoc:
    def __init__(self, stream): self.stream = list(stream); self.k = 0
    def nxt(self, n):
        v = self.stream[self.k] % n; self.k += 1; return v
    def choice(self, seq): return seq[self.nxt(len(seq))]
    def shuffle(self, x):
        for i in reversed(range(1, len(x))):
            j = self.nxt(i + 1); x[i], x[j] = x[j], x[i]

def nonint(n: int, r0: int, r1: int, r2: int, g0: int, g1: int, g2: int, shuf: bool) -> bool:
    """
    pre: 0 <= n <= 3
    pre: min(r0, r1, r2, g0, g1, g2) >= 0
    post: _
    """
    m = Model(seed=1)
    m.random = SymRandom([r0, r1, r2])
    h = Havoc([g0, g1, g2])
    saved = (random.choice, random.shuffle)
    random.choice, random.shuffle = h.choice, h.shuffle
    try:
        ags = [Agent("a%d" % i, m) for i in range(3)][:n]
        for a in ags: m.environment.add_agent(a)
        if shuf:
            got = m.environment.shuffle()
            exp = list(ags); rs = [r0, r1, r2]; k = 0
            for i in reversed(range(1, len(exp))):
                j = rs[k] % (i + 1); k += 1; exp[i], exp[j] = exp[j], exp[i]
            return len(got) == len(exp) and all(a is b for a, b in zip(got, exp)) and list(m.environment) == ags
        got = m.environment.get_random_agent()
        if n == 0: return got is None
        return got is ags[r0 % n]
    finally:
        random.choice, random.shuffle = saved

# ---------- C14
def product(k0: int, n0: int, k1: int, n1: int, v0: int, v1: int, v2: int, v3: int) -> bool:
    """
    pre: 0 <= k0 < 5 and 0 <= k1 < 5 and 0 <= n0 <= 2 and 0 <= n1 <= 2
    post: _
    """
    def mk(kind, n, vals):
        if kind == 0: return vals[0], [vals[0]]
        if kind == 1: return "ab"[:n], ["ab"[:n]]
        if kind == 2: return list(vals[:n]), list(vals[:n])
        if kind == 3: return tuple(vals[:n]), list(vals[:n])
        return range(n), list(range(n))
    a, la = mk(k0, n0, [v0, v1])
    b, lb = mk(k1, n1, [v2, v3])
    pl = B.ParameterList({"p": a})
    pl.add_parameter("q", b)
    got = pl.build()
    exp = [{"p": x, "q": y} for x in la for y in lb]
    if len(got) != len(exp): return False
    for g, e in zip(got, exp):
        if list(g.keys()) != ["p", "q"] or not (g["p"] == e["p"]) or not (g["q"] == e["q"]): return False
    got2 = pl.build()
    return len(got2) == len(got) and all(x is not y for x, y in zip(got, got2))

# ---------- C18
LOG = []
class DM(Model, D.IDecodable):
    @staticmethod
    def decode(params): LOG.append(("model",)); return DM()
class DS(__import__("ECAgent.Core").Core.System, D.IDecodable):
    @staticmethod
    def decode(params):
        LOG.append(("system", params["id"], params["model"])); return DS(params["id"], params["model"], priority=params["priority"])
    def execute(self): pass
class DA(Agent, D.IDecodable):
    @staticmethod
    def decode(params):
        LOG.append(("agent", params["pre"], params["agent_index"], params["model"])); return DA(params["pre"] + str(params["agent_index"]), params["model"])
def hook(params): LOG.append(("hook", params["name"], params.get("model")))

class Dec(D.Decoder):
    def __init__(self, data): self.data = data
    def open_file(self, f): return self.data

def decode(ns: int, ng: int, hm0: bool, hm1: bool, hs0: bool, hs1: bool, ha0: bool, ha1: bool, num: int, p0: int, p1: int) -> bool:
    """
    pre: 0 <= ns <= 2 and 0 <= ng <= 1 and 0 <= num <= 2
    post: _
    """
    LOG.clear()
    mod = __name__
    def H(name): return {"func": "hook", "module": mod, "params": {"name": name}}
    data = {"model": {"name": "DM", "module": mod, "params": {}}, "systems": [], "agents": []}
    if hm0: data["pre_model_decode"] = H("pre_model")
    if hm1: data["post_model_decode"] = H("post_model")
    for i in range(ns):
        sd = {"name": "DS", "module": mod, "params": {"id": "s%d" % i, "priority": [p0, p1][i]}}
        if hs0: sd["pre_system_init"] = H("pre_s%d" % i)
        if hs1: sd["post_system_init"] = H("post_s%d" % i)
        data["systems"].append(sd)
    for i in range(ng):
        ad = {"name": "DA", "module": mod, "number": num, "params": {"pre": "g%d_" % i}}
        if ha0: ad["pre_agent_init"] = H("pre_g%d" % i)
        if ha1: ad["post_agent_init"] = H("post_g%d" % i)
        data["agents"].append(ad)
    model = Dec(data).decode("x")
    exp = []
    if hm0: exp.append(("hook", "pre_model", None))
    exp.append(("model",))
    for i in range(ns):
        if hs0: exp.append(("hook", "pre_s%d" % i, model))
        exp.append(("system", "s%d" % i, model))
        if hs1: exp.append(("hook", "post_s%d" % i, model))
    for i in range(ng):
        if ha0: exp.append(("hook", "pre_g%d" % i, model))
        for j in range(num): exp.append(("agent", "g%d_" % i, j, model))
        if ha1: exp.append(("hook", "post_g%d" % i, model))
    if hm1: exp.append(("hook", "post_model", None))
    if len(LOG) != len(exp): return False
    for a, b in zip(LOG, exp):
        if len(a) != len(b): return False
        for x, y in zip(a, b):
            if isinstance(y, Model) or isinstance(x, Model):
                if x is not y: return False
            elif x != y: return False
    ids = [a.id for a in model.environment]
    return ids == ["g0_%d" % j for j in range(num)] * ng and sorted(model.systems.systems) == ["s%d" % i for i in range(ns)]
