import ECAgent.Tags as Tags
TagLibrary, DuplicateTagError, TagNotFoundError = Tags.TagLibrary, Tags.DuplicateTagError, Tags.TagNotFoundError

def one_add(s: str) -> bool:
    """
    pre: len(s) <= 4
    post: _
    """
    lib = TagLibrary()
    lib.add_tag("A")
    try:
        lib.add_tag(s)
        ok = True
    except DuplicateTagError:
        ok = False
    if not ok:
        return len(lib) == 2 and lib.itemize() == [("NONE", 0), ("A", 1)]
    return len(lib) == 3 and lib.get_tag_name(2) == s and lib.itemize() == [("NONE", 0), ("A", 1), (s, 2)] and lib.__dict__[s] == 2

POOL = ["add_tag", "itemize", "get_tag_name", "NONE", "A", "_tag_counter", "_tag_names", "__len__", "__class__", "__dict__", "x", "", "B"]
def one_add_pool(i: int) -> bool:
    """
    pre: 0 <= i < len(POOL)
    post: _
    """
    s = POOL[i]
    lib = TagLibrary()
    lib.add_tag("A")
    try:
        lib.add_tag(s)
        ok = True
    except DuplicateTagError:
        ok = False
    if not ok:
        return len(lib) == 2 and lib.itemize() == [("NONE", 0), ("A", 1)]
    return len(lib) == 3 and lib.get_tag_name(2) == s and lib.itemize() == [("NONE", 0), ("A", 1), (s, 2)] and getattr(lib, s) == 2
