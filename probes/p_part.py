PART = 0
MODE = "check"
REACHED = [False]

def h(which: int, p: int) -> bool:
    """
    pre: which == PART
    pre: 0 <= p
    post: _
    """
    REACHED[0] = False
    ok = True
    if which == 1 and p > 5:
        REACHED[0] = True
        ok = (p * 2 > 10)
    if MODE == "reach":
        return not REACHED[0]
    return ok
