import numpy as np
from ECAgent.Core import Model
from ECAgent.Environments import DiscreteWorld, GridWorld, LookupGenerator, ConstantGenerator

W = GridWorld(Model(), 3, 2)

def gen_real_pandas(a: int, b: int, c: int, k: int) -> bool:
    """
    post: _
    """
    env = W
    for n in list(env.cells.columns):
        if n != 'pos': env.cells.drop(columns=[n], inplace=True)
    calls = []
    def g(pos, cells):
        calls.append(pos)
        return a * pos[0] + b * pos[1] + c * pos[2] + k
    env.add_cell_component("v", g)
    exp_pos = [(x, y, 0) for y in range(2) for x in range(3)]
    if calls != exp_pos: return False
    for i, p in enumerate(exp_pos):
        if env.cells["v"][i] != a * p[0] + b * p[1] + k: return False
    return True
