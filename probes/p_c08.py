from ECAgent.Core import Model, Agent
from ECAgent.Environments import SpaceWorld, DiscreteWorld, PositionComponent

def _clamp(v, lo, hi):
    return lo if v < lo else (hi if v > hi else v)

def move_grid(w: int, h: int, d: int, wrap: bool, x0: int, y0: int, z0: int, dx: int, dy: int, dz: int) -> bool:
    """
    pre: w >= 0 and h >= 0 and d >= 0
    pre: (w == 0 or 0 <= x0 < w) and (h == 0 or 0 <= y0 < h) and (d == 0 or 0 <= z0 < d)
    pre: (w > 0 or x0 == 0) and (h > 0 or y0 == 0) and (d > 0 or z0 == 0)
    post: _
    """
    m = Model()
    env = SpaceWorld(m, w, h, d, wrap_env=wrap)
    env._index_offset = 1
    a = Agent("a", m)
    env.add_agent(a, x0, y0, z0)
    env.move(a, dx, dy, dz)
    p = a[PositionComponent]
    ok = True
    for (v, v0, dv, ext) in ((p.x, x0, dx, w), (p.y, y0, dy, h), (p.z, z0, dz, d)):
        if ext > 0:
            if not (0 <= v <= ext - 1): return False
            if wrap:
                if v != (v0 + dv) % ext: return False
            else:
                if v != _clamp(v0 + dv, 0, ext - 1): return False
    return ok

def move_cont(w: float, x0: float, dx: float, wrap: bool) -> bool:
    """
    pre: w >= 1 and 0 <= x0 <= w
    pre: -1e6 < dx < 1e6 and w < 1e6
    post: _
    """
    m = Model()
    env = SpaceWorld(m, w, 0.0, 0.0, wrap_env=wrap)
    a = Agent("a", m)
    env.add_agent(a, x0, 0, 0)
    env.move(a, dx, 0, 0)
    v = a[PositionComponent].x
    return 0 <= v <= w
