import sys, time, collections, importlib
import z3
from crosshair.core_and_libs import analyze_function, run_checkables, MessageType
from crosshair.options import AnalysisOptionSet
from crosshair.options import AnalysisKind

_q = {"n": 0, "t": 0.0, "unknown": 0}
_orig = z3.Solver.check
def _check(self, *a):
    t = time.perf_counter()
    r = _orig(self, *a)
    _q["t"] += time.perf_counter() - t
    _q["n"] += 1
    if str(r) == "unknown": _q["unknown"] += 1
    return r
z3.Solver.check = _check

def run(fn, timeout=60, per_path=10):
    st = collections.Counter()
    for k in _q: _q[k] = 0
    opts = AnalysisOptionSet(per_condition_timeout=timeout, per_path_timeout=per_path, report_all=True,
                             analysis_kind=[AnalysisKind.PEP316], stats=st, max_uninteresting_iterations=10**9)
    t = time.time()
    msgs = run_checkables(analyze_function(fn, opts))
    return [(m.state.name, m.message) for m in msgs], dict(st), dict(_q), round(time.time() - t, 2)

if __name__ == "__main__":
    mod = importlib.import_module(sys.argv[1])
    for name in sys.argv[2:]:
        print(name, run(getattr(mod, name), timeout=float(__import__('os').environ.get('T', '60'))))
