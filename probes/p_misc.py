def idx(i: int) -> bool:
    """
    pre: 0 <= i < 3
    post: _
    """
    xs = ["a", "b", "c"]
    d = {"a": 1, "b": 2, "c": 3}
    return d[xs[i]] == i + 1

def dkey(k: int) -> bool:
    """
    pre: 0 <= k < 4
    post: _
    """
    d = {0: 'x', 1: 'y'}
    return (k in d) == (k < 2)

def skey(s: str) -> bool:
    """
    pre: len(s) <= 3
    post: _
    """
    d = {"ab": 1, "NONE": 0}
    return (s in d) == (s == "ab" or s == "NONE")

def rng(n: int) -> bool:
    """
    pre: 0 <= n <= 5
    post: _
    """
    c = 0
    for _ in range(n):
        c += 1
    return c == n and type(n) == int
