"""Probe: the prototype lifter on SpaceWorld.move / move_to with IEEE doubles (Float64)."""
import ast, time, z3
import klift
from klift import Interp
from ECAgent.Core import Model, Agent
import ECAgent.Environments as E

F = z3.Float64(); RNE = z3.RNE()
def fp(v):
    if isinstance(v, z3.ExprRef): return v
    if isinstance(v, bool): return z3.BoolVal(v)
    return z3.FPVal(float(v), F)
klift.lift = fp
_cmp = Interp.compare
def compare(self, op, a, b):
    if any(isinstance(v, z3.FPRef) for v in (a, b)):
        a, b = fp(a), fp(b)
        return {ast.Lt: z3.fpLT, ast.LtE: z3.fpLEQ, ast.Gt: z3.fpGT, ast.GtE: z3.fpGEQ, ast.Eq: z3.fpEQ,
                ast.NotEq: lambda x, y: z3.Not(z3.fpEQ(x, y))}[type(op)](a, b)
    return _cmp(self, op, a, b)
Interp.compare = compare
_bin = Interp.binop
def binop(self, op, a, b, frame, guard):
    if any(isinstance(v, z3.FPRef) for v in (a, b)):
        a, b = fp(a), fp(b)
        if isinstance(op, ast.Add): return z3.fpAdd(RNE, a, b)
        if isinstance(op, ast.Sub): return z3.fpSub(RNE, a, b)
        raise klift.Untranslatable("float %s" % type(op).__name__)
    return _bin(self, op, a, b, frame, guard)
Interp.binop = binop

def fin(*xs): return z3.And([z3.Not(z3.fpIsNaN(x)) for x in xs] + [z3.Not(z3.fpIsInf(x)) for x in xs])
zero, one = z3.FPVal(0.0, F), z3.FPVal(1.0, F)
def check(name, s, extra):
    t = time.time(); s.push(); s.add(extra); r = s.check(); s.pop(); print("  %-34s %-6s %.2fs" % (name, r, time.time() - t))

w, h, d = z3.FPs('w h d', F); p0 = z3.FPs('px py pz', F); dl = z3.FPs('dx dy dz', F)
def world():
    m = Model(); env = E.SpaceWorld(m, 1, 1, 1)
    env.width, env.height, env.depth, env.wrap_env = w, h, d, False
    a = Agent("a", m); pc = E.PositionComponent(a, m, *p0); a.add_component(pc)
    return env, a, pc
ext_ok = z3.And(fin(w, h, d), *[z3.Or(z3.fpEQ(e, zero), z3.fpGEQ(e, one)) for e in (w, h, d)])
inv = z3.And(fin(*p0), *[z3.Implies(z3.fpGT(e, zero), z3.And(z3.fpLEQ(zero, p), z3.fpLEQ(p, e))) for p, e in zip(p0, (w, h, d))])

print("move (clamp, continuous world) lifted on Float64")
env, a, pc = world(); K = Interp()
t = time.time(); outs = K.call(env.move, [a, dl[0], dl[1], dl[2]]); print("  lifted in %.2fs, outcomes %s" % (time.time() - t, [k for g, k, v in outs]))
s = z3.Solver(); s.add(ext_ok, inv, fin(*dl))
bad = []
for new, p, dd, e in zip((pc.x, pc.y, pc.z), p0, dl, (w, h, d)):
    sm = z3.fpAdd(RNE, p, dd)
    spec = z3.If(z3.fpLT(sm, zero), zero, z3.If(z3.fpGT(sm, e), e, sm))
    bad.append(z3.And(z3.fpGT(e, zero), z3.Or(z3.Not(z3.fpLEQ(zero, new)), z3.Not(z3.fpLEQ(new, e)), z3.Not(z3.fpEQ(new, spec)))))
check("contain + exact, positive axes", s, z3.Or(bad))

print("move_to lifted on Float64")
env, a, pc = world(); K = Interp(); tg = z3.FPs('tx ty tz', F)
outs = K.call(env.move_to, [a, tg[0], tg[1], tg[2]])
print("  outcomes", [(k, v) for g, k, v in outs])
rej = z3.Or([g for g, k, v in outs if k == "raise" and v == "IndexError"])
s = z3.Solver(); s.add(ext_ok, inv, fin(*tg))
inrange = z3.And([z3.Or(z3.Not(z3.fpGT(e, zero)), z3.And(z3.fpLEQ(zero, t_), z3.fpLEQ(t_, e))) for t_, e in zip(tg, (w, h, d))])
check("rejected <=> out of range", s, rej == inrange)
check("accepted => lands exactly", s, z3.And(z3.Not(rej), z3.Or([z3.Not(z3.fpEQ(n, t_)) for n, t_ in zip((pc.x, pc.y, pc.z), tg)])))
check("rejected => unchanged", s, z3.And(rej, z3.Or([z3.Not(z3.fpEQ(n, p)) for n, p in zip((pc.x, pc.y, pc.z), p0)])))
