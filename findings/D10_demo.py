"""D10 (C15): an error raised by any execution must reach the caller of batch_run - also a StopIteration, also with a
worker pool (real multiprocessing)."""
from ECAgent.Core import Model, System
from ECAgent.Collectors import Collector
from ECAgent.Batching import batch_run


class C(Collector):
    def collect(self):
        self.records.append(self.model.x)


class Bad(System):
    def execute(self):
        if self.model.x == 1:
            next(iter([]))          # user code calling next() on an exhausted iterator


class M(Model):
    def __init__(self, x):
        super().__init__()
        self.x = x
        self.systems.add_system(Bad("b", self))
        self.systems.add_system(C("c", self))


if __name__ == "__main__":
    for procs in (1, 2):
        try:
            r = batch_run(M, {"x": [0, 1, 2, 3]}, collectors="c", processes=procs, max_timesteps=1)
        except Exception as e:
            print("processes=%d: error reached the caller: %r" % (procs, e))
            continue
        raise AssertionError("processes=%d: batch_run returned %r although execution x=1 raised" % (procs, r))
    print("OK")
