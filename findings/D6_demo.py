"""D6 (C20): an agent created without an explicit tag must receive the current default tag of its own class."""
from ECAgent.Core import Agent, Model
class Sheep(Agent):
    pass
Sheep.tag = 7
s = Sheep("s", Model())
assert s.tag == 7, "Sheep.tag = 7 but Sheep('s', m).tag == %r" % s.tag
print("OK")
