"""D8 (C16): grid_search must return the first combination attaining the optimum, whatever the magnitude of the scores."""
import sys
from ECAgent.Core import Model
from ECAgent.Batching import grid_search, ScoreMode
class M(Model):
    def __init__(self, x):
        super().__init__(); self.x = x; self.complete()
score = lambda m: [-sys.maxsize, -sys.maxsize - 1, -sys.maxsize - 5][m.x]
best, results = grid_search(M, {"x": [0, 1, 2]}, score, mode=ScoreMode.MAX)
assert best["x"] == 0, "MAX search over %r returned x=%d" % ([r["score"] for r in results], best["x"])
print("OK")
