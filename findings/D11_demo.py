"""D11 (C11): adding or removing a cell component leaves the set of cells unchanged - also for the name 'pos'."""
from ECAgent.Core import Model, ComponentNotFoundError
import ECAgent.Environments as Env

w = Env.GridWorld(Model(), 2, 2)
cells = list(w.cells['pos'])
w.add_cell_component("rain", [1, 2, 3, 4])
try:
    w.add_cell_component("pos", [9, 9, 9, 9])
except ValueError:
    pass
assert list(w.cells['pos']) == cells, "adding a component called 'pos' replaced the cells' coordinates: %r" % (list(w.cells['pos']),)
try:
    w.remove_cell_component("pos")
    raise AssertionError("removing 'pos' (not a cell component) was accepted; columns left: %r" % (list(w.cells.columns),))
except ComponentNotFoundError:
    pass
assert list(w.cells['pos']) == cells and list(w.cells['rain']) == [1, 2, 3, 4]
print("OK")
