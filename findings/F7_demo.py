"""F7 (C11, known finding, not repaired): numbers mixed with None in one cell component - None is stored as NaN.
Also documents the pandas behaviour the stand-in vf.stubs._infer models."""
import math
from ECAgent.Core import Model
import ECAgent.Environments as Env

w = Env.LineWorld(Model(), 3)
w.add_cell_component("mixed", [0, None, 1])
col = list(w.cells["mixed"])
assert col[0] == 0 and col[2] == 1
assert isinstance(col[1], float) and math.isnan(col[1]), "F7 no longer manifests: %r" % (col,)
# mixes that are stored as given (object columns)
for src in ([0, "cell", None], [None, None, None], [0, True, 1], [(1, 2), 0, None], [10 ** 30, None, 2]):
    w.add_cell_component("c", list(src))
    assert all(a is b or a == b for a, b in zip(w.cells["c"], src)), (src, list(w.cells["c"]))
# numbers only: numerically equal values
w.add_cell_component("n", [0, 2.5, 1])
assert list(w.cells["n"]) == [0, 2.5, 1]
print("F7 manifests (None -> NaN among numbers); other mixes are stored as given")
