"""D1/D3 (C09, C10): cell ids and get_cell in worlds with a zero-extent (single-layer) axis."""
from ECAgent.Core import Model
from ECAgent.Environments import GridWorld, LineWorld, DiscreteWorld, discrete_grid_pos_to_id
g = GridWorld(Model(), 3, 3)
assert tuple(g.get_cell(1, 1)['pos']) == (1, 1, 0)            # D1: IndexError on the unfixed tree (depth 0 => z >= depth)
assert tuple(LineWorld(Model(), 3).get_cell(2)['pos']) == (2, 0, 0)
w = DiscreteWorld(Model(), 3, 0, 2)                            # D3: zero height in the middle
ids = [discrete_grid_pos_to_id(x, 0, w.width, z, w.height) for z in range(2) for x in range(3)]
assert ids == list(range(6)), "ids of the 6 cells of a 3x0x2 world: %r" % ids
assert w.get_neighbours((1, 0, 0), 1) == [0, 2, 3, 4, 5], w.get_neighbours((1, 0, 0), 1)
print("OK")
