"""D12 (C19): at module level, looking up a name that is not a tag raises TagNotFoundError - also for the names of the
global library's own attributes."""
import ECAgent.Tags as Tags

Tags.add_tag("SHEEP")
assert Tags.SHEEP == 1 and Tags.NONE == 0
for name in ("_tag_counter", "_tag_names", "WOLF"):
    try:
        v = getattr(Tags, name)
    except Tags.TagNotFoundError:
        continue
    raise AssertionError("Tags.%s is not a tag but the lookup returned %r" % (name, v))
print("OK")
