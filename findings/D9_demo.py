"""D9 (C04): lookup by identifier through the deprecated alias Environment.getAgent must agree with get_agent."""
import warnings
from ECAgent.Core import Model, Agent
warnings.simplefilter("ignore")
m = Model(); a = Agent("a", m); m.environment.add_agent(a)
assert m.environment.getAgent("a") is a, "getAgent('a') returned %r for a resident agent" % (m.environment.getAgent("a"),)
print("OK")
