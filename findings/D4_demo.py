"""D4 (C19): no tag name may break the library's own operations; name<->id lookups must stay inverses."""
import ECAgent.Tags as Tags
lib = Tags.TagLibrary()
for name in ("itemize", "__class__"):
    try:
        lib.add_tag(name)
    except Tags.DuplicateTagError:
        continue                      # rejecting the name is fine
    items = lib.itemize()             # TypeError: 'int' object is not callable (unfixed tree)
    assert getattr(lib, name) == dict(items)[name], "lookup of %r by name gives %r" % (name, getattr(lib, name))
try:
    Tags.add_tag("get_tag_name")
    assert Tags.get_tag_name == dict(Tags.itemize())["get_tag_name"], "Tags.get_tag_name is not the tag id"
except Tags.DuplicateTagError:
    pass
print("OK")
