"""D5 (C05): mutating the system set mid-timestep makes execute_systems skip or rerun systems (unfixed tree)."""
from ECAgent.Core import Model, System
log = []
class S(System):
    def __init__(s, id, m, p, act=None):
        super().__init__(id, m, priority=p); s.act = act
    def execute(s):
        log.append(s.id)
        if s.act: s.act(s)
# (a) a system removing itself: its successor is skipped
m = Model(); m.systems.add_system(S("a", m, 2, lambda s: s.clean_up())); m.systems.add_system(S("b", m, 1)); m.systems.add_system(S("c", m, 0))
m.execute(); print("self-removal:", log); ra = list(log)
# (b) the last system registers a higher-priority system: it runs a second time
del log[:]; m = Model(); n = [0]
def add(s):
    s.model.systems.add_system(S("new%d" % n[0], s.model, 5))
m.systems.add_system(S("a", m, 0, add))
try:
    m.execute()
except KeyError as e:
    print("second run of a tried to register again:", e)
print("add higher priority:", log)
assert ra == ["a", "b", "c"], "successor of a self-removing system was skipped: %r" % ra
assert log.count("a") == 1, "system ran twice: %r" % log
print("OK")
