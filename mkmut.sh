#!/bin/bash
# usage: ./mkmut.sh <PROP>-<name> <file-relative-to-repo> <python-expression: s -> s>
# Writes mutants/<name>.patch. Works in a scratch worktree under /tmp (never touches /repo's working tree).
set -e
name=$1; file=$2; expr=$3
wt=$(mktemp -d /tmp/mkmut-XXXX)/r
git -C /repo worktree add --detach "$wt" HEAD >/dev/null 2>&1
trap 'git -C /repo worktree remove --force "$wt" >/dev/null 2>&1; rm -rf "$(dirname "$wt")"; git -C /repo worktree prune' EXIT
python3 - "$wt/$file" "$expr" <<'PY'
import sys
p=sys.argv[1]
s=open(p,newline='').read()
f=eval("lambda s: "+sys.argv[2])
t=f(s)
assert t!=s, "mutation did not change the file"
open(p,'w',newline='').write(t)
PY
git -C "$wt" diff > /verif/mutants/$name.patch
echo "wrote mutants/$name.patch ($(wc -l < /verif/mutants/$name.patch) lines)"
