#!/bin/bash
# usage: ./mkmut.sh <PROP>-<name> <file-relative-to-/repo> <python-expression: s -> s>   (writes mutants/<name>.patch, restores /repo)
set -e
name=$1; file=$2; expr=$3
[ -z "$(git -C /repo status --porcelain)" ] || { echo "/repo not clean"; exit 1; }
python3 - "$file" "$expr" <<'PY'
import sys
p='/repo/'+sys.argv[1]
s=open(p,newline='').read()
f=eval("lambda s: "+sys.argv[2])
t=f(s)
assert t!=s, "mutation did not change the file"
open(p,'w',newline='').write(t)
PY
git -C /repo diff > /verif/mutants/$name.patch
git -C /repo checkout -- .
echo "wrote mutants/$name.patch ($(wc -l < /verif/mutants/$name.patch) lines)"
