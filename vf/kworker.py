"""Worker process for engine K: runs one lifter obligation (one partition).

stdin : JSON {module, name, part, tier, timeout}           (with --replay: a replay payload; same fields + cex)
stdout: JSON {results:[{part, verdict, detail, kq, kq_nontrivial, validated, second_solver, solver_s, wall_s, queries,
                        samples, cex, replay, functions_encoded}]}     (with --replay: {reproduced, ...})
"""
import importlib
import json
import os
import sys
import time
import traceback


class Ctx:
    def __init__(self, part, tier, timeout):
        from vf.kengine import Queries
        self.part, self.tier = part, tier
        root = os.path.dirname(os.path.dirname(os.path.abspath(__file__)))
        self.q = Queries(timeout_s=timeout, second_solver=(tier == "thorough"),
                         workdir=os.path.join(root, ".work", "smt-%d" % os.getpid()))
        self.cex = None
        self.replay = None
        self.encoded = {}
        self.notes = []

    def report_cex(self, query, model, replay):
        """a property query came back sat: record the model and the result of the concrete replay"""
        if self.cex is None:
            self.cex = {"query": query, "model": model}
            self.replay = replay

    def validated(self, n=1):
        self.q.validated += n


def run(spec):
    import vf.kengine as ke
    t0 = time.time()
    mod = importlib.import_module(spec["module"])
    obs = [o for o in mod.obligations(spec["tier"]) if o.engine == "K" and o.name == spec["name"]]
    if not obs:
        return {"part": spec["part"], "verdict": "error", "detail": "no K obligation %r" % spec["name"]}
    ob = obs[0]
    ctx = Ctx(spec["part"], spec["tier"], spec.get("timeout", 120))
    verdict, detail = "discharged", ""
    try:
        ob.run(ctx)
    except ke.Untranslatable as e:
        verdict, detail = "inconclusive", "Untranslatable: %s" % e
    except Exception as e:
        verdict, detail = "error", "".join(traceback.format_exception(type(e), e, e.__traceback__))[-1500:]
    q = ctx.q
    if verdict == "discharged":
        if ctx.cex is not None:
            verdict, detail = "cex", "query %s is sat" % ctx.cex["query"]
        elif q.failed is not None:
            name, kind, d, model = q.failed
            if kind == "cex":
                verdict, detail = "error", "property query sat but no replay was attempted: " + d
            elif kind == "vacuous":
                verdict, detail = "error", "vacuous: " + d
            else:
                verdict, detail = "inconclusive", d
    try:
        d = q.workdir
        if d and os.path.isdir(d):
            import shutil
            shutil.rmtree(d, ignore_errors=True)
    except Exception:
        pass
    nontrivial = len([r for r in q.log if r["result"] in ("sat", "unsat")]) if any(
        r["expect"] == "sat" and r["result"] == "sat" for r in q.log) else 0
    return {"part": spec["part"], "verdict": verdict, "detail": detail, "kq": len(q.log), "kq_nontrivial": nontrivial,
            "validated": q.validated, "second_solver": q.second_agree, "solver_s": round(q.solver_s, 3),
            "wall_s": round(time.time() - t0, 3), "queries": q.log, "samples": q.samples, "cex": ctx.cex,
            "replay": ctx.replay, "functions_encoded": list(ctx.encoded.values()), "notes": ctx.notes}


def main():
    spec = json.load(sys.stdin)
    if "--replay" in sys.argv:
        r = run({"module": spec["module"], "name": spec["name"], "part": spec["part"], "tier": spec.get("tier", "quick"),
                 "timeout": 300})
        rp = r.get("replay") or {}
        json.dump({"reproduced": bool(r.get("verdict") == "cex" and rp.get("reproduced")), "verdict": r.get("verdict"),
                   "cex": r.get("cex"), "replay": rp, "detail": r.get("detail")}, sys.stdout, default=str)
        return
    json.dump({"results": [run(spec)]}, sys.stdout, default=str)


if __name__ == "__main__":
    main()
