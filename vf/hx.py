"""Harness-side helpers shared by every X obligation.

A harness function is an ordinary Python function with scalar typed parameters and a PEP316 docstring
(`pre:` lines are the bounds, `post: _`).  Its body builds a state, calls the real ECAgent code, compares with an
independent oracle and returns a bool through `end()`.  The same function object serves three purposes:

* MODE == "check": analysed by CrossHair; `end(ok)` returns the verdict.
* MODE == ("reach", label): the reachability twin; `end()` returns `label not reached`, so the twin must be
  *refuted* for the obligation to be non-vacuous.  The refuting inputs become the evidence samples.
* CONCRETE == True: replay of a counterexample in a plain interpreter; `fail()` records what was observed.

Partitions: `P` is a dict of *concrete* values chosen by the driver before analysis (structure sizes, operation
kinds); a harness reads them as ordinary Python values, so they cost no symbolic branching.
"""

MODE = "check"
P = {}
CONCRETE = False
DETAILS = []
_REACHED = set()


_GLOBALS0 = None


def _module_containers():
    import sys
    for name in ("Core", "Environments", "Batching", "Collectors", "Decode", "Tags"):
        mod = sys.modules.get("ECAgent." + name)
        for k, v in (list(vars(mod).items()) if mod is not None else []):
            if type(v) in (set, dict, list) and not k.startswith("__"):
                yield mod, k, v


def _reset_module_state():
    """Every symbolic path stands for a run in a fresh process: module-level containers of the library (memo tables, type sets -
    the current tree has none) are put back, in place, to their content at import time.  Without this a container filled by one
    path is seen by the next path in the same analysis process and yields counterexamples that do not reproduce."""
    global _GLOBALS0
    if _GLOBALS0 is None:
        _GLOBALS0 = {(m.__name__, k): type(v)(v) for m, k, v in _module_containers()}
        return
    for m, k, v in _module_containers():
        v0 = _GLOBALS0.get((m.__name__, k))
        if v0 is None:
            continue
        if type(v) is list:
            v[:] = v0
        else:
            v.clear()
            v.update(v0)


def begin():
    """Reset per-path bookkeeping. Must be the first call of every harness."""
    _REACHED.clear()
    del DETAILS[:]
    _reset_module_state()


def reach(label="main"):
    _REACHED.add(label)


def fail(msg, **kw):
    """Record a failed comparison (details only materialised in concrete replay) and return False."""
    if CONCRETE:
        try:
            DETAILS.append({"what": msg, **{k: repr(v) for k, v in kw.items()}})
        except Exception as e:  # pragma: no cover
            DETAILS.append({"what": msg, "repr_error": repr(e)})
    return False


def end(ok):
    if MODE == "check":
        return ok
    return MODE[1] not in _REACHED


def same_seq(got, exp):
    """identity-wise equality of two sequences"""
    if len(got) != len(exp):
        return False
    for a, b in zip(got, exp):
        if a is not b:
            return False
    return True


class StubLimit(Exception):
    """A stub was used outside the narrow interface it models: inconclusive, never a violation."""


def pick(seq, i):
    """seq[i] for a symbolic index by explicit case split.  (Subscripting a concrete list of classes with a symbolic
    int makes CrossHair hand back a lazily-chosen proxy whose instantiation forks without bound - measured.)"""
    for k in range(len(seq)):
        if i == k:
            return seq[k]
    raise IndexError(i)
