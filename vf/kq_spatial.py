"""Engine K query sets for the continuous-space kernels of SpaceWorld on IEEE doubles and reals (C04, C08, C12)."""
import struct
import z3
from vf.kengine import Interp, Untranslatable, F64, RNE, concretize
from ECAgent.Core import Model, Agent
import ECAgent.Core
import ECAgent.Environments as E
from vf.stubs import NULL_LOGGER

ZERO = z3.FPVal(0.0, F64)
ONE = z3.FPVal(1.0, F64)


def fin(*xs):
    return z3.And([z3.Not(z3.fpIsNaN(x)) for x in xs] + [z3.Not(z3.fpIsInf(x)) for x in xs])


def _world(w, h, d, p0):
    m = Model(logger=NULL_LOGGER)
    env = E.SpaceWorld(m, 1, 1, 1)
    env.width, env.height, env.depth, env.wrap_env = w, h, d, False
    a = Agent("a", m)
    pc = E.PositionComponent(a, m, *p0)
    a.add_component(pc)
    env.agents[a.id] = a
    return m, env, a, pc


def _ext_ok(*es):
    return z3.And(fin(*es), *[z3.Or(z3.fpEQ(e, ZERO), z3.fpGEQ(e, ONE)) for e in es])


def _inv(ps, es):
    return z3.And(fin(*ps), *[z3.Implies(z3.fpGT(e, ZERO), z3.And(z3.fpLEQ(ZERO, p), z3.fpLEQ(p, e))) for p, e in zip(ps, es)])


def _f(model, name):
    """double value of an FP constant in a z3 model given as strings"""
    v = model.get(name)
    if v is None:
        return 0.0
    try:
        x = z3.FPVal(0.0, F64)
        return float(eval(v)) if False else _parse_fp(v)
    except Exception:
        return 0.0


def _parse_fp(s):
    s = s.strip()
    if s in ("+oo", "oo"):
        return float("inf")
    if s == "-oo":
        return float("-inf")
    if s == "NaN":
        return float("nan")
    if s in ("+0.0", "-0.0"):
        return float(s)
    if "*(2**" in s:
        mant, ex = s.split("*(2**")
        return float(mant) * (2.0 ** int(ex.rstrip(")")))
    return float(s)


def _exact_model(solver_model_pairs):
    return solver_model_pairs


class _FPQ:
    """helper: run a property query and, on sat, extract exact doubles from the z3 model for the replay"""

    def __init__(self, ctx, pre, vars_):
        self.ctx, self.pre, self.vars = ctx, pre, vars_

    def check(self, name, extra, replay):
        s = z3.Solver()
        s.set("timeout", int(self.ctx.q.timeout_s * 1000))
        r, model = self.ctx.q.check(name, self.pre + extra, "unsat")
        if r == "sat":
            # re-solve to read exact values (Queries keeps only the printed model)
            s.add(*self.pre)
            s.add(*extra)
            if str(s.check()) == "sat":
                m = s.model()
                vals = {}
                for nm, v in self.vars.items():
                    ev = m.eval(v, model_completion=True)
                    try:
                        bits = z3.simplify(z3.fpToIEEEBV(ev)).as_long()
                        vals[nm] = struct.unpack(">d", bits.to_bytes(8, "big"))[0]
                    except Exception:
                        vals[nm] = 0.0
                self.ctx.report_cex(name, {k: repr(v) for k, v in vals.items()}, replay(vals))
            else:
                self.ctx.q.failed = (name, "inconclusive", "sat answer could not be re-derived for replay", model)
            return False
        return r == "unsat"


def move_fp(ctx):
    """SpaceWorld.move, non-wrapping, continuous world (offset 0), one axis at a time: lines component.<a> = max(min(...))"""
    w, h, d = z3.FPs('w h d', F64)
    p0 = z3.FPs('px py pz', F64)
    dl = z3.FPs('dx dy dz', F64)
    m, env, a, pc = _world(w, h, d, p0)
    K = Interp()
    outs = K.call(env.move, [a, dl[0], dl[1], dl[2]])
    ctx.encoded.update(K.encoded)
    raises = [g for g, k, v in outs if k == "raise"]
    pre = [_ext_ok(w, h, d), _inv(p0, (w, h, d)), fin(*dl)]
    ctx.q.check("pre satisfiable", pre, "sat")
    ctx.q.check("pre satisfiable (move beyond the edge)", pre + [z3.fpGT(z3.fpAdd(RNE, p0[0], dl[0]), w), z3.fpGT(w, ZERO)], "sat")
    # translator validation on concrete doubles
    n = 0
    for (cw, cp, cd) in ((5.0, 2.5, 1.25), (5.0, 4.5, 1.0), (5.0, 0.5, -2.0), (1.0, 0.1, 0.2), (0.0, 3.0, 1.0), (7.5, 7.5, 1e300), (3.0, 0.0, -0.0)):
        mm = Model(logger=NULL_LOGGER)
        real = E.SpaceWorld(mm, cw, cw, cw)
        ag = Agent("r", mm)
        ag.add_component(E.PositionComponent(ag, mm, cp, cp, cp))
        real.move(ag, cd, cd, cd)
        sub = [(w, z3.FPVal(cw, F64)), (h, z3.FPVal(cw, F64)), (d, z3.FPVal(cw, F64))] + \
            [(p, z3.FPVal(cp, F64)) for p in p0] + [(x, z3.FPVal(cd, F64)) for x in dl]
        got = concretize(pc.x, sub)
        if got != ag[E.PositionComponent].x:
            raise AssertionError("translator validation failed: move(%r) from %r in %r: lifted %r real %r"
                                 % (cd, cp, cw, got, ag[E.PositionComponent].x))
        n += 1
    ctx.validated(n)

    def replay(vals):
        mm = Model(logger=NULL_LOGGER)
        real = E.SpaceWorld(mm, vals['w'], vals['h'], vals['d'])
        ag = Agent("r", mm)
        ag.add_component(E.PositionComponent(ag, mm, vals['px'], vals['py'], vals['pz']))
        real.move(ag, vals['dx'], vals['dy'], vals['dz'])
        pos = ag[E.PositionComponent]
        bad = []
        for ax, e, p, dd, new in (("x", vals['w'], vals['px'], vals['dx'], pos.x), ("y", vals['h'], vals['py'], vals['dy'], pos.y),
                                  ("z", vals['d'], vals['pz'], vals['dz'], pos.z)):
            if e > 0:
                s_ = p + dd
                want = 0.0 if s_ < 0 else e if s_ > e else s_
                if not (0 <= new <= e) or new != want:
                    bad.append((ax, new, want))
        return {"reproduced": bool(bad), "inputs": vals, "after": (pos.x, pos.y, pos.z), "violations": bad,
                "what": "relative move on doubles is not old+delta saturated to [0, extent]"}
    fq = _FPQ(ctx, pre, {"w": w, "h": h, "d": d, "px": p0[0], "py": p0[1], "pz": p0[2], "dx": dl[0], "dy": dl[1], "dz": dl[2]})
    if raises:
        if not fq.check("no exception", [z3.Or(raises)], replay):
            return
    for ax, new, p, dd, e in zip("xyz", (pc.x, pc.y, pc.z), p0, dl, (w, h, d)):
        sm = z3.fpAdd(RNE, p, dd)
        spec = z3.If(z3.fpLT(sm, ZERO), ZERO, z3.If(z3.fpGT(sm, e), e, sm))
        bad = z3.And(z3.fpGT(e, ZERO), z3.Or(z3.Not(z3.fpLEQ(ZERO, new)), z3.Not(z3.fpLEQ(new, e)), z3.Not(z3.fpEQ(new, spec))))
        if not fq.check("axis %s: stays in [0, extent] and equals fl(old+delta) saturated" % ax, [bad], replay):
            return


def move_to_fp(ctx):
    w, h, d = z3.FPs('w h d', F64)
    p0 = z3.FPs('px py pz', F64)
    tg = z3.FPs('tx ty tz', F64)
    m, env, a, pc = _world(w, h, d, p0)
    K = Interp()
    outs = K.call(env.move_to, [a, tg[0], tg[1], tg[2]])
    ctx.encoded.update(K.encoded)
    rej = z3.Or([g for g, k, v in outs if k == "raise" and v == "IndexError"] or [z3.BoolVal(False)])
    other = z3.Or([g for g, k, v in outs if k == "raise" and v != "IndexError"] or [z3.BoolVal(False)])
    pre = [_ext_ok(w, h, d), _inv(p0, (w, h, d)), fin(*tg)]
    ctx.q.check("pre satisfiable", pre, "sat")
    ctx.q.check("pre satisfiable (target out of range)", pre + [z3.fpGT(tg[1], h), z3.fpGT(h, ZERO)], "sat")
    inrange = z3.And([z3.Or(z3.Not(z3.fpGT(e, ZERO)), z3.And(z3.fpLEQ(ZERO, t_), z3.fpLEQ(t_, e))) for t_, e in zip(tg, (w, h, d))])

    def replay(vals):
        mm = Model(logger=NULL_LOGGER)
        real = E.SpaceWorld(mm, vals['w'], vals['h'], vals['d'])
        ag = Agent("r", mm)
        ag.add_component(E.PositionComponent(ag, mm, vals['px'], vals['py'], vals['pz']))
        t = (vals['tx'], vals['ty'], vals['tz'])
        ok_t = all((e <= 0) or (0 <= c <= e) for c, e in zip(t, (vals['w'], vals['h'], vals['d'])))
        try:
            real.move_to(ag, *t)
            raised = None
        except IndexError:
            raised = "IndexError"
        except Exception as ex:
            raised = repr(ex)
        pos = ag[E.PositionComponent].xyz()
        good = (ok_t and raised is None and pos == t) or ((not ok_t) and raised == "IndexError" and pos == (vals['px'], vals['py'], vals['pz']))
        return {"reproduced": not good, "inputs": vals, "target_in_range": ok_t, "raised": raised, "after": pos,
                "what": "absolute move on doubles: accepted iff in range, lands exactly / rejected changes nothing"}
    fq = _FPQ(ctx, pre, {"w": w, "h": h, "d": d, "px": p0[0], "py": p0[1], "pz": p0[2], "tx": tg[0], "ty": tg[1], "tz": tg[2]})
    if not fq.check("no exception other than IndexError", [other], replay):
        return
    if not fq.check("rejected <=> some positive axis out of [0, extent]", [rej == inrange], replay):
        return
    if not fq.check("accepted => lands exactly where requested",
                    [z3.Not(rej), z3.Or([z3.Not(z3.fpEQ(n_, t_)) for n_, t_ in zip((pc.x, pc.y, pc.z), tg)])], replay):
        return
    fq.check("rejected => position unchanged", [rej, z3.Or([z3.Not(z3.fpEQ(n_, p)) for n_, p in zip((pc.x, pc.y, pc.z), p0)])], replay)


def place_fp(ctx):
    """the bounds test of SpaceWorld.add_agent on doubles (lines computing x_bool/y_bool/z_bool and the raise)"""
    w, h, d = z3.FPs('w h d', F64)
    t = z3.FPs('x y z', F64)
    m = Model(logger=NULL_LOGGER)
    env = E.SpaceWorld(m, 1, 1, 1)
    env.width, env.height, env.depth = w, h, d
    a = Agent("new", m)
    K = Interp(native=(E.PositionComponent, E.Environment.add_agent, Agent.add_component))
    outs = K.call(env.add_agent, [a, t[0], t[1], t[2]])
    ctx.encoded.update(K.encoded)
    rej = z3.Or([g for g, k, v in outs if k == "raise" and v == "Exception"] or [z3.BoolVal(False)])
    other = z3.Or([g for g, k, v in outs if k == "raise" and v != "Exception"] or [z3.BoolVal(False)])
    pre = [_ext_ok(w, h, d), fin(*t)]
    ctx.q.check("pre satisfiable", pre, "sat")
    outside = z3.Or([z3.And(z3.fpGT(e, ZERO), z3.Or(z3.fpLT(c, ZERO), z3.fpGT(c, e))) for c, e in zip(t, (w, h, d))])
    ctx.q.check("pre satisfiable (outside)", pre + [outside], "sat")

    def replay(vals):
        mm = Model(logger=NULL_LOGGER)
        real = E.SpaceWorld(mm, vals['w'], vals['h'], vals['d'])
        ag = Agent("r", mm)
        c = (vals['x'], vals['y'], vals['z'])
        out = any(e > 0 and (cc < 0 or cc > e) for cc, e in zip(c, (vals['w'], vals['h'], vals['d'])))
        try:
            real.add_agent(ag, *c)
            raised = None
        except Exception as ex:
            raised = type(ex).__name__
        good = (out and raised == "Exception" and len(real.agents) == 0 and E.PositionComponent not in ag) or \
               ((not out) and raised is None and ag[E.PositionComponent].xyz() == c)
        return {"reproduced": not good, "inputs": vals, "outside": out, "raised": raised,
                "what": "placement on doubles: rejected iff outside on a positive axis, nothing left behind"}
    fq = _FPQ(ctx, pre, {"w": w, "h": h, "d": d, "x": t[0], "y": t[1], "z": t[2]})
    if not fq.check("no other exception", [other], replay):
        return
    fq.check("rejected <=> outside [0, extent] on some positive axis", [rej != outside], replay)


def box_real(ctx):
    """get_agents_at with real-valued positions, query point and leeways: exactly the closed box (covers non-integral
    coordinates over the reals; double rounding at the faces is outside - DESIGN.md section 6)"""
    m = Model(logger=NULL_LOGGER)
    env = E.SpaceWorld(m, 0, 0, 0)
    ps = []
    ags = []
    for i in range(2):
        p = z3.Reals('p%dx p%dy p%dz' % (i, i, i))
        a = Agent("a%d" % i, m)
        a.add_component(E.PositionComponent(a, m, *p))
        env.agents[a.id] = a
        ps.append(p)
        ags.append(a)
    qx, qy, qz, lw, lx, ly, lz = z3.Reals('qx qy qz lw lx ly lz')
    K = Interp()
    outs = K.call(env.get_agents_at, [qx, qy, qz, lw, lx, ly, lz])
    ctx.encoded.update(K.encoded)
    rets = [(g, v) for g, k, v in outs if k == "return" and v is not None]
    if len(rets) != 1:
        raise Untranslatable("get_agents_at outcomes")
    lst = rets[0][1]
    ctx.q.check("pre satisfiable", [lw >= 0], "sat")

    def absr(a):
        return z3.If(a < 0, -a, a)

    def inbox(p):
        return z3.And(absr(p[0] - qx) <= z3.If(lx > lw, lx, lw), absr(p[1] - qy) <= z3.If(ly > lw, ly, lw),
                      absr(p[2] - qz) <= z3.If(lz > lw, lz, lw))
    ents = lst.entries
    if len(ents) != 2 or ents[0][1] is not ags[0] or ents[1][1] is not ags[1]:
        # the comprehension yields the residents in joining order, each under its own guard
        raise Untranslatable("unexpected shape of the result list: %r" % ([v for g, v in ents],))
    for i in (0, 1):
        r, model = ctx.q.check("agent %d is returned iff it lies in the closed leeway box (reals)" % i,
                               [ents[i][0] != inbox(ps[i])], "unsat")
        if r == "sat":
            def val(n):
                v = model.get(n, "0")
                try:
                    return float(z3.RealVal(v).as_fraction()) if "/" in v else float(v.rstrip("?"))
                except Exception:
                    return 0.0
            mm = Model(logger=NULL_LOGGER)
            real = E.SpaceWorld(mm, 0, 0, 0)
            pts = []
            for j in range(2):
                ag = Agent("a%d" % j, mm)
                pt = (val("p%dx" % j), val("p%dy" % j), val("p%dz" % j))
                real.add_agent(ag, *pt)
                pts.append(pt)
            qv = [val(n) for n in ("qx", "qy", "qz", "lw", "lx", "ly", "lz")]
            got = [a.id for a in real.get_agents_at(*qv)]
            want = ["a%d" % j for j in range(2) if all(abs(pts[j][k] - qv[k]) <= max(qv[3], qv[4 + k]) for k in range(3))]
            ctx.report_cex("box_real", model, {"reproduced": got != want, "got": got, "expected": want, "points": pts, "query": qv,
                                               "what": "positional query differs from the closed leeway box"})
            return


# ------------------------------------------------------------------------------------------------ integers (second engine)

def _iworld(w, h, d, off, wrap, p0):
    m = Model(logger=NULL_LOGGER)
    env = E.SpaceWorld(m, 1, 1, 1)
    env.width, env.height, env.depth, env.wrap_env, env._index_offset = w, h, d, wrap, off
    a = Agent("a", m)
    pc = E.PositionComponent(a, m, *p0)
    a.add_component(pc)
    env.agents[a.id] = a
    return m, env, a, pc


def _inum(model, name):
    v = model.get(name)
    if v is None:
        return 0
    return v == 'True' if v in ('True', 'False') else int(v)


def move_int_k(ctx):
    """SpaceWorld.move on unbounded integers, wrap and offset symbolic: the same statement as C08.move_int (engine X),
    decided a second time by the lifter - one query per axis instead of one path per case"""
    w, h, d, off = z3.Ints('w h d off')
    wrap = z3.Bool('wrap')
    p0 = z3.Ints('px py pz')
    dl = z3.Ints('dx dy dz')
    m, env, a, pc = _iworld(w, h, d, off, wrap, p0)
    K = Interp()
    outs = K.call(env.move, [a, dl[0], dl[1], dl[2]])
    ctx.encoded.update(K.encoded)
    raises = [g for g, k, v in outs if k == "raise"]
    pre = [w >= 0, h >= 0, d >= 0, z3.Or(off == 0, off == 1)]
    for p, e in zip(p0, (w, h, d)):
        pre.append(z3.Implies(e > 0, z3.And(0 <= p, p <= e - off)))
    ctx.q.check("pre satisfiable", pre, "sat")
    ctx.q.check("pre satisfiable (wrapping, several laps)", pre + [wrap, w >= 2, dl[0] > 3 * w], "sat")
    # translator validation against the real method
    n = 0
    for (cw, co, cwrap, cp, cd) in ((5, 0, False, 2, 9), (5, 1, False, 4, 1), (5, 1, True, 4, 11), (3, 0, True, 0, -7), (0, 0, True, 4, 2),
                                    (0, 1, False, 4, 2), (1, 1, False, 0, -3), (4, 0, True, 3, -12)):
        mm = Model(logger=NULL_LOGGER)
        real = E.SpaceWorld(mm, cw, cw, cw, wrap_env=cwrap)
        real._index_offset = co
        ag = Agent("r", mm)
        ag.add_component(E.PositionComponent(ag, mm, cp, cp, cp))
        real.move(ag, cd, cd, cd)
        sub = [(w, z3.IntVal(cw)), (h, z3.IntVal(cw)), (d, z3.IntVal(cw)), (off, z3.IntVal(co)), (wrap, z3.BoolVal(cwrap))] + \
            [(p, z3.IntVal(cp)) for p in p0] + [(x, z3.IntVal(cd)) for x in dl]
        if concretize(pc.y, sub) != ag[E.PositionComponent].y:
            raise AssertionError("translator validation failed for move %r" % ((cw, co, cwrap, cp, cd),))
        n += 1
    ctx.validated(n)

    def replay(model):
        cw, ch, cd_, co, cwrap = (_inum(model, k) for k in ('w', 'h', 'd', 'off', 'wrap'))
        ps = [_inum(model, k) for k in ('px', 'py', 'pz')]
        ds = [_inum(model, k) for k in ('dx', 'dy', 'dz')]
        mm = Model(logger=NULL_LOGGER)
        real = E.SpaceWorld(mm, cw, ch, cd_, wrap_env=bool(cwrap))
        real._index_offset = co
        ag = Agent("r", mm)
        ag.add_component(E.PositionComponent(ag, mm, *ps))
        try:
            real.move(ag, *ds)
        except Exception as ex:
            return {"reproduced": True, "what": "move raised %r" % ex, "inputs": model}
        pos = ag[E.PositionComponent].xyz()
        bad = []
        for e, p, dd, new in zip((cw, ch, cd_), ps, ds, pos):
            if e > 0:
                want = (p + dd) % e if cwrap else min(max(p + dd, 0), e - co)
                if new != want or not (0 <= new <= e - co):
                    bad.append((new, want))
        return {"reproduced": bool(bad), "inputs": model, "after": pos, "violations": bad,
                "what": "relative move on ints is not (old+delta) mod extent / saturated"}
    if raises:
        r, model = ctx.q.check("no exception", pre + [z3.Or(raises)], "unsat")
        if r == "sat":
            ctx.report_cex("no_exception", model, replay(model))
            return
    for ax, new, p, dd, e in zip("xyz", (pc.x, pc.y, pc.z), p0, dl, (w, h, d)):
        sm = p + dd
        clamp = z3.If(sm < 0, 0, z3.If(sm > e - off, e - off, sm))
        r, model = ctx.q.check("axis %s, clamping world: old+delta saturated to [0, extent-offset]" % ax,
                               pre + [e > 0, z3.Not(wrap), new != clamp], "unsat")
        if r == "sat":
            ctx.report_cex("clamp_" + ax, model, replay(model))
            return
        r, model = ctx.q.check("axis %s, wrapping world: result in [0, extent)" % ax,
                               pre + [e > 0, wrap, z3.Or(new < 0, new >= e)], "unsat")
        if r == "sat":
            ctx.report_cex("wrap_range_" + ax, model, replay(model))
            return
        # (z3's mod is the Euclidean one, which coincides with Python's % for a positive modulus; stating the congruence
        # as (new - sm) mod e == 0 instead makes z3 answer unknown - measured 120 s)
        r, model = ctx.q.check("axis %s, wrapping world: result is (old+delta) modulo extent" % ax,
                               pre + [e > 0, wrap, new != sm % e], "unsat")
        if r == "sat":
            ctx.report_cex("wrap_congruent_" + ax, model, replay(model))
            return
        r, model = ctx.q.check("axis %s, wrapping world, zero extent: untouched" % ax, pre + [e == 0, wrap, new != p], "unsat")
        if r == "sat":
            ctx.report_cex("wrap_zero_" + ax, model, replay(model))
            return
