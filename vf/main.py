"""Orchestration: obligations -> worker processes -> replay -> known findings -> evidence -> exit code.

usage: python -m vf.main <ID> [quick|thorough] [--replay <file>] [--only <obligation>[,<obligation>]] [--jobs N]

Exit codes: 0 = held on everything explored (inconclusive obligations are listed, never counted as discharged)
            1 = reproduced counterexample not covered by a known finding (prints VIOLATION property=<id> replay=<path>)
            2 = harness error (vacuous obligation, counterexample that does not replay, tool crash)
"""
import concurrent.futures
import hashlib
import importlib
import inspect
import json
import os
import subprocess
import sys
import time

ROOT = os.path.dirname(os.path.dirname(os.path.abspath(__file__)))
REPO = os.environ.get("VERIF_REPO", "/repo")
PY_X = os.path.join(ROOT, ".venv", "bin", "python")
PY_PLAIN = "/venv/bin/python"
ALT = os.path.realpath(REPO) != "/repo"       # checking a scratch tree (self-test): keep evidence/replays apart
EVID_DIR = os.path.join(ROOT, ".work", "alt-evidence") if ALT else os.path.join(ROOT, "evidence")
REPLAY_DIR = os.path.join(ROOT, ".work", "alt-replays") if ALT else os.path.join(ROOT, "replays")
NCPU = int(os.environ.get("VERIF_JOBS", os.cpu_count() or 4))


def child_env():
    env = dict(os.environ)
    env["PYTHONPATH"] = REPO + os.pathsep + ROOT
    env["PYTHONHASHSEED"] = "0"
    env["ECAGENT_VERIF"] = "1"
    env.pop("PYTHONSTARTUP", None)
    return env


def run_json(cmd, spec, timeout, extra_env=None):
    t0 = time.time()
    env = child_env()
    if extra_env:
        env.update({k: str(v) for k, v in extra_env.items()})
    try:
        p = subprocess.run(cmd, input=json.dumps(spec), capture_output=True, text=True, timeout=timeout,
                           env=env, cwd=ROOT)
    except subprocess.TimeoutExpired:
        return None, "worker timeout after %.0fs" % (time.time() - t0)
    if p.returncode != 0:
        return None, "worker exit %d: %s" % (p.returncode, p.stderr[-1500:])
    try:
        return json.loads(p.stdout[p.stdout.index("{"):]), None
    except Exception as e:
        return None, "worker output unparsable: %r / %s" % (e, p.stderr[-500:])


# ---------------------------------------------------------------------------------------------- classification

def classify_x(res):
    """Map a CrossHair result to discharged / cex / inconclusive / error."""
    st, msg = res["state"], res["message"]
    if st == "CONFIRMED" and res["unknown"] == 0:
        return "discharged"
    if st == "CONFIRMED":
        return "inconclusive"
    if st in ("POST_FAIL", "EXEC_ERR", "POST_ERR"):
        if "NotDeterministic" in msg or "CrossHairInternal" in msg or "StubLimit" in msg:
            return "inconclusive"
        if res["args"] is None:
            return "inconclusive"
        return "cex"
    if st == "PRE_UNSAT":
        return "error"
    if st == "TOOL_ERROR":
        return "error"
    return "inconclusive"


def sha_src(obj):
    try:
        src = inspect.getsource(obj)
        fn = inspect.getsourcefile(obj)
        line = inspect.getsourcelines(obj)[1]
        name = getattr(obj, "__qualname__", getattr(obj, "__name__", repr(obj)))
        return {"name": name, "where": "%s:%d" % (os.path.relpath(fn, REPO) if fn.startswith(REPO) else fn, line),
                "sha256": hashlib.sha256(src.encode()).hexdigest()[:16]}
    except Exception as e:
        return {"name": repr(obj), "where": "?", "sha256": "?", "error": repr(e)}


# ---------------------------------------------------------------------------------------------- replay

def replay_x(module, fn, part, call):
    spec = {"module": module, "fn": fn, "part": part, "args": call["args"], "kwargs": call["kwargs"]}
    out, err = run_json([PY_PLAIN, "-m", "vf.replay"], spec, 300, extra_env=(part or {}).get("_env"))
    if out is None:
        return {"reproduced": None, "error": err}
    return out


def write_replay(pid, ob_name, payload):
    os.makedirs(REPLAY_DIR, exist_ok=True)
    h = hashlib.sha256(json.dumps(payload, sort_keys=True, default=str).encode()).hexdigest()[:10]
    path = os.path.join(REPLAY_DIR, "%s-%s-%s.json" % (pid, ob_name.replace("/", "_"), h))
    with open(path, "w") as f:
        json.dump(payload, f, indent=1, default=str)
    return path


def cmd_replay(pid, path):
    payload = json.load(open(path))
    if payload.get("engine") == "K":
        out, err = run_json([PY_X, "-m", "vf.kworker", "--replay"], payload, 600)
    else:
        out = replay_x(payload["module"], payload["fn"], payload["part"], payload["call"])
        err = out.get("error")
    print(json.dumps(out, indent=1, default=str))
    if out and out.get("reproduced"):
        print("VIOLATION property=%s replay=%s" % (pid, path))
        return 1
    if out and out.get("reproduced") is False:
        print("replay does not reproduce on this tree")
        return 0
    print("HARNESS-ERROR replay failed: %s" % err)
    return 2


# ---------------------------------------------------------------------------------------------- main check

def load_known():
    p = os.path.join(ROOT, "known_findings.json")
    if not os.path.exists(p):
        return {"findings": [], "fixed": []}
    return json.load(open(p))


def run_check(pid, tier, only=None):
    t_start = time.time()
    modname = "vf.harness." + pid.lower()
    sys.path.insert(0, REPO)
    mod = importlib.import_module(modname)
    obs = mod.obligations(tier)
    if only:
        obs = [o for o in obs if o.name in only]
    known = load_known()
    known_ids = {f["id"]: f for f in known.get("findings", []) if f["property"] == pid}

    tasks = []
    for ob in obs:
        if ob.engine == "X":
            g = max(1, ob.group)
            for i in range(0, len(ob.parts), g):
                chunk = ob.parts[i:i + g]
                spec = {"module": modname, "fn": ob.fn.__name__,
                        "parts": [{"part": p_, "labels": list(ob.labels_for(p_))} for p_ in chunk],
                        "timeout": ob.timeout, "per_path": ob.per_path}
                budget = len(chunk) * (ob.timeout * 1.5 + 60 * len(ob.labels) + 30) + 60
                tasks.append((ob, chunk, [PY_X, "-m", "vf.xworker"], spec, budget))
        else:
            for part in ob.parts:
                spec = {"module": modname, "name": ob.name, "part": part, "tier": tier, "timeout": ob.timeout}
                tasks.append((ob, [part], [PY_X, "-m", "vf.kworker"], spec, ob.timeout * 3 + 120))

    results = {ob.name: [] for ob in obs}       # per obligation: list of per-partition records
    errors = []

    def do(task):
        ob, chunk, cmd, spec, budget = task
        # a partition may pin ambient interpreter state for its worker process (e.g. {"_env": {"PYTHONHASHSEED": "3"}})
        out, err = run_json(cmd, spec, budget, extra_env=chunk[0].get("_env") if chunk and isinstance(chunk[0], dict) else None)
        return ob, chunk, out, err

    with concurrent.futures.ThreadPoolExecutor(max_workers=NCPU) as ex:
        for ob, chunk, out, err in ex.map(do, tasks):
            if out is None:
                for part in chunk:
                    results[ob.name].append({"part": part, "verdict": "inconclusive", "detail": err, "worker_failed": True})
                continue
            for r in out["results"]:
                results[ob.name].append(r)

    if os.environ.get("VERIF_PROFILE"):
        for ob in obs:
            for r in results[ob.name]:
                c = r.get("check") or r
                print("PROFILE %s%s %s paths=%s wall=%s reach=%s" % (
                    ob.name, _pp(r["part"]), c.get("state", r.get("verdict")), c.get("paths"), c.get("wall_s"),
                    {l: (rr["state"], rr["wall_s"]) for l, rr in r.get("reach", {}).items()}))
    # ---------------- interpret
    violations = []       # (ob, part, payload, replay_path)
    known_reported = []
    findings_gone = []
    inconclusive = []
    harness_errors = []
    discharged = 0
    total_obs = 0
    tot = {"paths": 0, "confirmed_paths": 0, "queries": 0, "unknown": 0, "solver_s": 0.0, "kq": 0, "kq_nontrivial": 0,
           "validated": 0, "second_solver": 0}
    samples = []
    ob_records = []

    for ob in obs:
        total_obs += 1
        recs = results[ob.name]
        ob_ok = True
        ob_cex = []
        reached = {l: False for l in ob.labels}
        reach_proved_unreachable = {l: True for l in ob.labels}
        ob_stat = {"paths": 0, "queries": 0, "unknown": 0, "solver_s": 0.0, "wall_s": 0.0, "partitions": len(recs)}
        for r in recs:
            if r.get("worker_failed"):
                ob_ok = False
                inconclusive.append("%s%s: %s" % (ob.name, _pp(r["part"]), r["detail"]))
                for l in ob.labels:
                    reach_proved_unreachable[l] = False
                continue
            if ob.engine == "X":
                c = r["check"]
                v = classify_x(c)
                for k in ("paths", "confirmed_paths", "queries", "unknown", "solver_s"):
                    tot[k] += c[k]
                ob_stat["paths"] += c["paths"]; ob_stat["queries"] += c["queries"]
                ob_stat["unknown"] += c["unknown"]; ob_stat["solver_s"] += c["solver_s"]; ob_stat["wall_s"] += c["wall_s"]
                if v == "cex":
                    ob_ok = False
                    ob_cex.append((r["part"], c))
                elif v == "inconclusive":
                    ob_ok = False
                    inconclusive.append("%s%s: %s %s (%d paths, %.0fs)" % (ob.name, _pp(r["part"]), c["state"],
                                                                             c["message"][:200], c["paths"], c["wall_s"]))
                elif v == "error":
                    ob_ok = False
                    harness_errors.append("%s%s: %s %s" % (ob.name, _pp(r["part"]), c["state"], c["message"][:300]))
                part_reached = False
                for l, rr in r["reach"].items():
                    tot["paths"] += rr["paths"]; tot["queries"] += rr["queries"]; tot["solver_s"] += rr["solver_s"]
                    ob_stat["wall_s"] += rr["wall_s"]
                    if rr["state"] in ("POST_FAIL",) and rr["args"] is not None:
                        part_reached = True
                        reach_proved_unreachable[l] = False
                        if not reached[l]:
                            reached[l] = True
                            if len(samples) < 40:
                                samples.append({"obligation": ob.name, "label": l, "partition": r["part"],
                                                "witness_call": rr["args"]})
                    elif rr["state"] == "CONFIRMED":
                        pass
                    else:
                        reach_proved_unreachable[l] = False
                        if rr["state"] in ("EXEC_ERR", "POST_ERR") and v == "discharged":
                            # the body raised in reach mode but not in check mode: cannot happen for a sound harness
                            harness_errors.append("%s%s twin %s: %s" % (ob.name, _pp(r["part"]), l, rr["message"][:200]))
                if not part_reached and v == "discharged" and r["reach"]:
                    # a partition in which no label is reachable proves nothing
                    if all(rr["state"] == "CONFIRMED" for rr in r["reach"].values()):
                        harness_errors.append("%s%s: vacuous partition (no reach label reachable)" % (ob.name, _pp(r["part"])))
                    else:
                        ob_ok = False
                        inconclusive.append("%s%s: reachability twin undecided" % (ob.name, _pp(r["part"])))
            else:  # K
                for k in ("kq", "kq_nontrivial", "validated", "second_solver"):
                    tot[k] += r.get(k, 0)
                tot["solver_s"] += r.get("solver_s", 0.0)
                tot["queries"] += r.get("kq", 0)
                ob_stat["queries"] += r.get("kq", 0); ob_stat["solver_s"] += r.get("solver_s", 0.0)
                ob_stat["wall_s"] += r.get("wall_s", 0.0)
                ob_stat.setdefault("k_queries", []).extend(r.get("queries", []))
                for s_ in r.get("samples", [])[:2]:
                    if len(samples) < 40:
                        samples.append({"obligation": ob.name, "partition": r["part"], "model_of_pre": s_})
                if r["verdict"] == "cex":
                    ob_ok = False
                    ob_cex.append((r["part"], r))
                elif r["verdict"] == "inconclusive":
                    ob_ok = False
                    inconclusive.append("%s%s: %s" % (ob.name, _pp(r["part"]), r.get("detail", "")[:300]))
                elif r["verdict"] == "error":
                    ob_ok = False
                    harness_errors.append("%s%s: %s" % (ob.name, _pp(r["part"]), r.get("detail", "")[:300]))
        if ob.engine == "X":
            requested = set()
            for r in recs:
                requested.update((r.get("reach") or {}).keys())
            for l in ob.labels:
                if l not in requested:
                    continue            # the twin of this label was not requested in any partition
                if not reached[l]:
                    if reach_proved_unreachable[l] and not ob_cex:
                        harness_errors.append("%s: reach label %r unreachable in every partition (vacuous)" % (ob.name, l))
                    elif not ob_cex:
                        ob_ok = False
                        inconclusive.append("%s: reach label %r not witnessed" % (ob.name, l))

        # counterexamples: replay the first few
        ob_verdict = "discharged" if ob_ok else "inconclusive"
        for part, c in ob_cex[:3]:
            if ob.engine == "X":
                rp = replay_x(modname, ob.fn.__name__, part, c["args"])
                payload = {"property": pid, "obligation": ob.name, "engine": "X", "module": modname,
                           "fn": ob.fn.__name__, "part": part, "call": c["args"], "crosshair_message": c["message"],
                           "replay": rp, "role": ob.role, "finding": ob.finding,
                           "how_to_rerun": "cd /verif && ./check %s --replay <this file>" % pid}
            else:
                rp = c.get("replay", {"reproduced": None, "error": "no replay"})
                payload = {"property": pid, "obligation": ob.name, "engine": "K", "module": modname, "name": ob.name,
                           "part": part, "tier": tier, "cex": c.get("cex"), "replay": rp, "role": ob.role,
                           "finding": ob.finding, "how_to_rerun": "cd /verif && ./check %s --replay <this file>" % pid}
            if rp.get("reproduced") is True:
                if ob.role == "finding_prop" and ob.finding in known_ids:
                    ob_verdict = "known_finding"
                    if ob.finding not in [k[0] for k in known_reported]:
                        known_reported.append((ob.finding, known_ids[ob.finding]["what"], payload))
                    break
                path = write_replay(pid, ob.name, payload)
                violations.append((ob.name, part, path, rp))
                ob_verdict = "violated"
                break
            elif rp.get("reproduced") is False:
                harness_errors.append("%s%s: counterexample %s does not reproduce concretely (encoding/engine fault): %s"
                                      % (ob.name, _pp(part), json.dumps(c.get("args") or c.get("cex"), default=str)[:300],
                                         json.dumps(rp, default=str)[:300]))
                ob_verdict = "error"
            else:
                harness_errors.append("%s%s: replay failed: %s" % (ob.name, _pp(part), rp.get("error")))
                ob_verdict = "error"
        if ob.role == "finding_prop" and ob_ok:
            findings_gone.append(ob.finding)
        if ob_verdict in ("discharged", "known_finding"):
            discharged += 1
        ob_records.append({"name": ob.name, "engine": ob.engine, "role": ob.role, "finding": ob.finding,
                           "verdict": ob_verdict, "bounds": ob.bounds,
                           "functions_encoded": [sha_src(f) for f in ob.encoded],
                           **{k: (round(v, 3) if isinstance(v, float) else v) for k, v in ob_stat.items()}})

    # ---------------- report
    wall = time.time() - t_start
    for fid, what, _ in known_reported:
        print("KNOWN-FINDING: property=%s %s: %s" % (pid, fid, what))
    for fid in findings_gone:
        print("NOTE: known finding %s of %s no longer manifests on this tree (property confirmed on its class)" % (fid, pid))
    for line in inconclusive:
        print("INCONCLUSIVE obligation=%s" % line)
    for line in harness_errors:
        print("HARNESS-ERROR %s" % line)
    for name, part, path, rp in violations:
        print("counterexample: obligation=%s partition=%s observed=%s" % (name, json.dumps(part), json.dumps(rp, default=str)[:600]))
        print("VIOLATION property=%s replay=%s" % (pid, path))

    funcs = {}
    for o in ob_records:
        for f in o["functions_encoded"]:
            funcs[f["name"]] = f
    evidence = {
        "property_id": pid, "tier": tier, "seed": int(os.environ.get("VERIF_SEED", "0") or 0),
        "level": "model_checking",
        "coverage": {
            "evaluations": tot["paths"] + tot["kq"],
            "distinct_nontrivial": tot["confirmed_paths"] + tot["kq_nontrivial"],
            "rule": "evaluations = symbolic execution paths explored by CrossHair (check runs + reachability twins) + SMT "
                    "queries issued by the AST lifter; each path is a distinct set of branch decisions covering every "
                    "input that takes it. distinct_nontrivial = paths that satisfied all preconditions, ran the real "
                    "ECAgent code to the end and had their postcondition decided by z3 (CrossHair num_confirmed_paths) "
                    "+ lifter queries whose precondition was shown satisfiable.",
            "samples": samples or [{"note": "no reach witnesses recorded"}],
            "obligations": total_obs, "discharged": discharged,
            "exhaustive": discharged == total_obs and not inconclusive,
            "inconclusive": inconclusive, "obligation_details": ob_records,
            "functions_encoded": sorted(funcs.values(), key=lambda f: f["name"]),
            "bounds": getattr(mod, "BOUNDS", {}).get(tier, getattr(mod, "BOUNDS", {})),
            "outside_bounds": list(getattr(mod, "OUTSIDE", [])),
            "stubs": list(getattr(mod, "STUBS", [])),
            "paths": tot["paths"], "solver_queries": tot["queries"], "solver_unknown": tot["unknown"],
            "solver_time_s": round(tot["solver_s"], 2),
            "traces_validated_against_impl": tot["validated"], "second_solver_agreements": tot["second_solver"],
            "known_findings_reported": [k[0] for k in known_reported],
            "engine_versions": _versions(),
            "repo": REPO,
        },
        "assumptions": list(getattr(mod, "ASSUMPTIONS", [])),
        "wall_s": round(wall, 2),
        "violations": len(violations),
    }
    os.makedirs(EVID_DIR, exist_ok=True)
    if not only:
        with open(os.path.join(EVID_DIR, pid + ".json"), "w") as f:
            json.dump(evidence, f, indent=1, default=str)
    print("%s %s: obligations=%d discharged=%d inconclusive=%d paths=%d queries=%d unknown=%d solver=%.1fs wall=%.1fs"
          % (pid, tier, total_obs, discharged, len(inconclusive), tot["paths"], tot["queries"], tot["unknown"],
             tot["solver_s"], wall))
    if violations:
        return 1
    if harness_errors:
        return 2
    return 0


def _pp(part):
    return "" if not part else "[" + ",".join("%s=%s" % kv for kv in part.items()) + "]"


def _versions():
    v = {"python": sys.version.split()[0]}
    try:
        import z3
        v["z3"] = z3.get_version_string()
    except Exception:
        pass
    try:
        import crosshair
        v["crosshair"] = crosshair.__version__
    except Exception:
        pass
    return v


def main(argv):
    if not argv:
        print(__doc__)
        return 2
    pid = argv[0].upper()
    tier = os.environ.get("VERIF_TIER", "quick")
    only = None
    i = 1
    while i < len(argv):
        a = argv[i]
        if a in ("quick", "thorough"):
            tier = a
        elif a == "--replay":
            return cmd_replay(pid, argv[i + 1])
        elif a == "--only":
            only = argv[i + 1].split(",")
            i += 1
        elif a == "--jobs":
            global NCPU
            NCPU = int(argv[i + 1])
            i += 1
        i += 1
    return run_check(pid, tier, only)


if __name__ == "__main__":
    sys.exit(main(sys.argv[1:]))
