"""Engine K query sets for the grid kernels of ECAgent/Environments.py (C09, C10)."""
import itertools
import z3
from vf.kengine import Interp, GList, Untranslatable, concretize, outcome_of, AND
from ECAgent.Core import Model
import ECAgent.Environments as E


def m1(e):
    return z3.If(e > 0, e, 1)


def zabs(a):
    return z3.If(a < 0, -a, a)


def zmax(a, b):
    return z3.If(b > a, b, a)


def rank(x, y, z, w, h):
    """position of cell (x,y,z) in the world's own cell table: the constructor enumerates z-major, then y, then x,
    over max(extent, 1) cells per axis"""
    return z * m1(w) * m1(h) + y * m1(w) + x


def in_table(x, y, z, w, h, d):
    return z3.And(0 <= x, x < m1(w), 0 <= y, y < m1(h), 0 <= z, z < m1(d))


def _ret(outs):
    rets = [(g, v) for g, k, v in outs if k == "return" and v is not None]
    if len(rets) != 1:
        raise Untranslatable("expected one returning outcome, got %r" % ([(k, type(v).__name__) for g, k, v in outs],))
    return rets[0]


def _num(model, name):
    v = model.get(name)
    return int(v) if v is not None else 0


# ------------------------------------------------------------------------------------------------ C09

def lifted_id(K, w, h, x, y, z):
    """discrete_grid_pos_to_id called the way the world calls it: (x, y, width, z, height)"""
    g, v = _ret(K.call(E.discrete_grid_pos_to_id, [x, y, w, z, h]))
    return v


def id_formula(ctx):
    x, y, z, x2, y2, z2, w, h, d = z3.Ints('x y z x2 y2 z2 w h d')
    K = Interp()
    ida, idb = lifted_id(K, w, h, x, y, z), lifted_id(K, w, h, x2, y2, z2)
    ctx.encoded.update(K.encoded)
    # translator validation: the emitted term against the real function on a concrete grid (+ the suite's own input)
    n = 0
    for (cw, ch, cx, cy, cz) in list(itertools.product((0, 1, 2, 3), (0, 1, 3), (0, 1, 2), (0, 2), (0, 1, 4))) + [(3, 5, 1, 2, 4)]:
        sub = [(w, z3.IntVal(cw)), (h, z3.IntVal(ch)), (x, z3.IntVal(cx)), (y, z3.IntVal(cy)), (z, z3.IntVal(cz))]
        if concretize(ida, sub) != E.discrete_grid_pos_to_id(cx, cy, cw, cz, ch):
            raise AssertionError("translator validation failed for discrete_grid_pos_to_id%r" % ((cx, cy, cw, cz, ch),))
        n += 1
    ctx.validated(n)
    pre = [w >= 0, h >= 0, d >= 0, in_table(x, y, z, w, h, d), in_table(x2, y2, z2, w, h, d)]
    q = ctx.q
    q.check("pre satisfiable", pre, "sat")
    q.check("pre with a zero extent satisfiable", pre + [z3.Or(w == 0, h == 0), d >= 2, z == 1], "sat")

    def replay(model):
        cw, ch, cd = _num(model, 'w'), _num(model, 'h'), _num(model, 'd')
        a = (_num(model, 'x'), _num(model, 'y'), _num(model, 'z'))
        b = (_num(model, 'x2'), _num(model, 'y2'), _num(model, 'z2'))
        ia = E.discrete_grid_pos_to_id(a[0], a[1], cw, a[2], ch)
        ib = E.discrete_grid_pos_to_id(b[0], b[1], cw, b[2], ch)
        cells = max(cw, 1) * max(ch, 1) * max(cd, 1)
        bad = (a != b and ia == ib) or not (0 <= ia < cells)
        return {"reproduced": bool(bad), "shape": (cw, ch, cd), "cells": cells, "coords": [a, b], "ids": [ia, ib],
                "what": "two distinct in-grid cells share an id" if (a != b and ia == ib) else "id outside 0..cells-1"}
    r, model = q.check("distinct in-grid coordinates give distinct ids (all shapes)",
                       pre + [z3.Or(x != x2, y != y2, z != z2), ida == idb], "unsat")
    if r == "sat":
        ctx.report_cex("id_injective", model, replay(model))
    r, model = q.check("ids lie in 0..cells-1 (all shapes)",
                       pre + [z3.Or(ida < 0, ida >= m1(w) * m1(h) * m1(d))], "unsat")
    if r == "sat":
        ctx.report_cex("id_range", model, replay(model))
    r, model = q.check("id equals the position of the cell in the world's table (all shapes)",
                       pre + [ida != rank(x, y, z, w, h)], "unsat")
    if r == "sat":
        rp = replay(model)
        cw, ch = _num(model, 'w'), _num(model, 'h')
        a = rp["coords"][0]
        cd = max(rp["shape"][2], a[2] + 1)
        try:
            env = E.DiscreteWorld(Model(), cw, ch, cd)
            pos = env.cells['pos'][rp["ids"][0]] if 0 <= rp["ids"][0] < len(env.cells) else None
        except Exception as e:
            pos = repr(e)
        rp["table_row_at_id"] = pos
        rp["reproduced"] = pos != a
        rp["what"] = "the world's position table maps the id of %r back to %r" % (a, pos)
        ctx.report_cex("id_is_table_rank", model, rp)


def table_inverse(ctx):
    """per concrete shape, through the real constructor and the real pandas table"""
    N = ctx.part["N"]
    x, y, z = z3.Ints('x y z')
    q = ctx.q
    shapes = [s for s in itertools.product(range(N + 1), repeat=3) if s[0] >= 0]
    K = Interp()
    first = True
    for (cw, ch, cd) in shapes:
        env = E.DiscreteWorld(Model(), cw, ch, cd)
        table = [tuple(int(c) for c in p) for p in env.cells['pos']]
        cells = max(cw, 1) * max(ch, 1) * max(cd, 1)
        if len(table) != cells:
            ctx.report_cex("table_length", {"shape": str((cw, ch, cd))},
                           {"reproduced": True, "what": "table has %d rows for %d cells" % (len(table), cells)})
            return
        g, idt = _ret(K.call(E.discrete_grid_pos_to_id, [x, y, cw, z, ch]))
        inr = [0 <= x, x < max(cw, 1), 0 <= y, y < max(ch, 1), 0 <= z, z < max(cd, 1)]
        if first:
            q.check("pre satisfiable", inr, "sat")
            first = False
        ok = z3.Or([z3.And(idt == i, x == p[0], y == p[1], z == p[2]) for i, p in enumerate(table)])
        r, model = q.check("shape %dx%dx%d: table[id(x,y,z)] == (x,y,z)" % (cw, ch, cd), inr + [z3.Not(ok)], "unsat")
        if r == "sat":
            c = (_num(model, 'x'), _num(model, 'y'), _num(model, 'z'))
            i = E.discrete_grid_pos_to_id(c[0], c[1], cw, c[2], ch)
            back = table[i] if 0 <= i < len(table) else None
            ctx.report_cex("table_inverse", dict(model, shape=str((cw, ch, cd))),
                           {"reproduced": back != c, "shape": (cw, ch, cd), "coords": c, "id": i, "table_row": back,
                            "what": "the position table maps id %d back to %r, not %r" % (i, back, c)})
            return
    ctx.encoded.update(K.encoded)


class _Cells:
    """list-backed stand-in for the pandas cell table: positional row access returns row i; ['pos'][i] the i-th position"""
    _k_symbolic = True

    def __init__(self, w, h, d):
        self.w, self.h, self.d = w, h, d
        self.iloc = _ILoc()

    def ksubscript(self, idx, interp, frame, guard):
        if idx == 'pos':
            return _PosColumn(self.w, self.h, self.d)
        raise Untranslatable("cells[%r] not modelled" % (idx,))

    def __getattr__(self, n):
        raise Untranslatable("cells.%s not modelled" % n)


class _ILoc:
    def ksubscript(self, idx, interp, frame, guard):
        return ("row", idx)


class _PosColumn:
    """cells['pos'][i] = the i-th position of the table (i = rank): inverse of rank for in-range i"""

    def __init__(self, w, h, d):
        self.w, self.h, self.d = w, h, d

    def ksubscript(self, idx, interp, frame, guard):
        if not isinstance(idx, z3.ExprRef):
            idx = z3.IntVal(idx)
        W, H = m1(self.w), m1(self.h)
        return (idx % W, (idx / W) % H, idx / (W * H))


def _sym_world(w, h, d):
    env = E.DiscreteWorld(Model(), 1, 1, 1)        # real constructor first: whatever state __init__ sets up exists
    env.width, env.height, env.depth = w, h, d
    env.cells = _Cells(w, h, d)
    env._index_offset = 1
    env.wrap_env = False
    env.agents.clear()
    env.components.clear()
    return env


def get_cell(ctx):
    x, y, z, w, h, d = z3.Ints('x y z w h d')
    env = _sym_world(w, h, d)
    K = Interp()
    outs = K.call(env.get_cell, [x, y, z])
    ctx.encoded.update(K.encoded)
    rows = [(g, v) for g, k, v in outs if k == "return" and isinstance(v, tuple) and v and v[0] == "row"]
    raises = [(g, v) for g, k, v in outs if k == "raise"]
    other = [(g, k, v) for g, k, v in outs if not ((k == "return" and isinstance(v, tuple)) or k == "raise")]
    pre = [w >= 0, h >= 0, d >= 0]
    inr = in_table(x, y, z, w, h, d)
    q = ctx.q
    q.check("pre satisfiable (in range)", pre + [inr], "sat")
    q.check("pre satisfiable (flat world, in range)", pre + [inr, d == 0, w >= 2, x == 1], "sat")
    q.check("pre satisfiable (out of range)", pre + [z3.Not(inr)], "sat")
    returned = z3.Or([g for g, v in rows]) if rows else z3.BoolVal(False)
    idx_ok = z3.And([z3.Implies(g, v[1] == rank(x, y, z, w, h)) for g, v in rows]) if rows else z3.BoolVal(True)
    index_error = z3.Or([g for g, v in raises if v == "IndexError"]) if raises else z3.BoolVal(False)
    other_exc = z3.Or([g for g, v in raises if v != "IndexError"] + [g for g, k, v in other]) \
        if ([1 for g, v in raises if v != "IndexError"] or other) else z3.BoolVal(False)

    def replay(model):
        cw, ch, cd = _num(model, 'w'), _num(model, 'h'), _num(model, 'd')
        c = (_num(model, 'x'), _num(model, 'y'), _num(model, 'z'))
        real = E.DiscreteWorld(Model(), cw, ch, cd)
        inside = 0 <= c[0] < max(cw, 1) and 0 <= c[1] < max(ch, 1) and 0 <= c[2] < max(cd, 1)
        try:
            row = real.get_cell(*c)
            got = tuple(int(v) for v in row['pos'])
            ok = inside and got == c
            obs = "returned the row of %r" % (got,)
        except IndexError:
            ok = not inside
            obs = "IndexError"
        except Exception as e:
            ok = False
            obs = repr(e)
        return {"reproduced": not ok, "shape": (cw, ch, cd), "coords": c, "in_grid": inside, "observed": obs,
                "what": "get_cell%r in a %dx%dx%d world: %s" % (c, cw, ch, cd, obs)}
    for name, extra in (("in-range lookup returns (no exception)", [inr, z3.Not(returned)]),
                        ("in-range lookup returns that very cell's row", [inr, returned, z3.Not(idx_ok)]),
                        ("out-of-range lookup raises IndexError", [z3.Not(inr), z3.Not(index_error)]),
                        ("no other exception", [other_exc])):
        r, model = q.check(name, pre + extra, "unsat")
        if r == "sat":
            ctx.report_cex(name, model, replay(model))
            return


# ------------------------------------------------------------------------------------------------ C10

def neighbours(ctx):
    """tuple form: all extents symbolic.  int form: width and height concrete per query (every pair 0..WH), depth
    symbolic - the id of a cell is then linear; that ids equal table ranks for ALL shapes is C09's id_formula."""
    if ctx.part["ret"] == "int":
        WH = ctx.part.get("WH", 3)
        for cw in ([ctx.part["W_only"]] if "W_only" in ctx.part else range(WH + 1)):
            for ch in range(WH + 1):
                _neighbours(ctx, cw, ch, first=(ch == 0 and cw == ctx.part.get('W_only', 0)))
                if ctx.cex is not None or ctx.q.failed is not None:
                    return
        return
    _neighbours(ctx, None, None, first=True)


def _neighbours(ctx, cw_fixed, ch_fixed, first):
    kind, R, form = ctx.part["kind"], ctx.part["R"], ctx.part["ret"]
    ret = int if form == "int" else tuple
    cx, cy, cz, r, d = z3.Ints('cx cy cz r d')
    if cw_fixed is None:
        w, h = z3.Ints('w h')
    else:
        w, h = z3.IntVal(cw_fixed), z3.IntVal(ch_fixed)
    tag = "" if cw_fixed is None else "[w=%d,h=%d] " % (cw_fixed, ch_fixed)
    px, py, pz = z3.Ints('px py pz')
    incl = z3.Bool('incl')
    env = _sym_world(w if cw_fixed is None else cw_fixed, h if ch_fixed is None else ch_fixed, d)
    centre_form = ctx.part.get("centre", "tuple")
    K = Interp(unroll=2 * R + 1)
    fn = env.get_moore_neighbours if kind == "moore" else env.get_neumann_neighbours
    pre = [w >= 0, h >= 0, d >= 0, r >= 0, in_table(cx, cy, cz, w, h, d),
           z3.Or(r <= R, z3.And(w <= 2 * R + 1, h <= 2 * R + 1, d <= 2 * R + 1))]
    if centre_form == "tuple":
        centre = (cx, cy, cz)
    elif centre_form == "id":
        cid = z3.Int('cid')
        centre = cid
        pre.append(cid == rank(cx, cy, cz, w, h))
    else:   # position component with a real-valued in-cell offset: int() truncates a non-negative value exactly
        fx, fy, fz = z3.Reals('fx fy fz')
        pre += [0 <= fx, fx < 1, 0 <= fy, fy < 1, 0 <= fz, fz < 1]
        centre = E.PositionComponent(None, None, z3.ToReal(cx) + fx, z3.ToReal(cy) + fy, z3.ToReal(cz) + fz)
    outs = K.call(fn, [centre, r, incl, ret])
    ctx.encoded.update(K.encoded)
    g_ret, lst = _ret(outs)
    if not isinstance(lst, GList):
        raise Untranslatable("neighbour function did not return a list")
    raises = [(g, v) for g, k, v in outs if k == "raise"]
    ctx.notes.append("%d guarded entries, %d unwinding assertions" % (len(lst.entries), len(K.unwinding)))

    # translator validation against the real function on real worlds (tuple-form centres only: concrete subst)
    if centre_form == "tuple" and cw_fixed is None:
        n = 0
        for (cw, ch, cd) in ((3, 3, 3), (4, 2, 0), (3, 0, 2), (1, 5, 1), (2, 2, 2)):
            real = E.DiscreteWorld(Model(), cw, ch, cd)
            rfn = real.get_moore_neighbours if kind == "moore" else real.get_neumann_neighbours
            for c in itertools.product(range(max(cw, 1)), range(max(ch, 1)), range(max(cd, 1))):
                for rr in range(0, R + 1):
                    for ic in (False, True):
                        sub = [(w, z3.IntVal(cw)), (h, z3.IntVal(ch)), (d, z3.IntVal(cd)), (cx, z3.IntVal(c[0])),
                               (cy, z3.IntVal(c[1])), (cz, z3.IntVal(c[2])), (r, z3.IntVal(rr)), (incl, z3.BoolVal(ic))]
                        got = concretize(lst, sub)
                        want = rfn(c, rr, ic, ret)
                        if [tuple(v) if isinstance(v, tuple) else v for v in got] != list(want):
                            raise AssertionError("translator validation failed: %s%r r=%d incl=%s in %r: lifted %r real %r"
                                                 % (kind, c, rr, ic, (cw, ch, cd), got, want))
                        n += 1
                        if n >= 400:
                            break
        ctx.validated(n)

    q = ctx.q
    if first:
        q.check("pre satisfiable", pre, "sat")
        if cw_fixed is None:
            q.check("pre satisfiable (radius beyond the grid)", pre + [r > w + h + d, w >= 2], "sat")
            q.check("pre satisfiable (degenerate shape)", pre + [z3.Or(w == 0, h == 0, d == 0), r >= 1], "sat")

    def replay(model):
        cw = _num(model, 'w') if cw_fixed is None else cw_fixed
        ch = _num(model, 'h') if ch_fixed is None else ch_fixed
        cd = _num(model, 'd')
        c = (_num(model, 'cx'), _num(model, 'cy'), _num(model, 'cz'))
        rr = _num(model, 'r')
        ic = str(model.get('incl', 'False')) == 'True'
        real = E.DiscreteWorld(Model(), cw, ch, cd)
        rfn = real.get_moore_neighbours if kind == "moore" else real.get_neumann_neighbours
        if centre_form == "id":
            arg = c[2] * max(cw, 1) * max(ch, 1) + c[1] * max(cw, 1) + c[0]
        elif centre_form == "tuple":
            arg = c
        else:
            arg = E.PositionComponent(None, None, c[0] + 0.5, c[1] + 0.25, c[2] + 0.75)
        try:
            got = list(rfn(arg, rr, ic, ret))
        except Exception as e:
            return {"reproduced": True, "what": "%s raised %r" % (kind, e), "shape": (cw, ch, cd), "centre": c, "radius": rr}
        cells = []
        for zz in range(max(cd, 1)):
            for yy in range(max(ch, 1)):
                for xx in range(max(cw, 1)):
                    dist = max(abs(xx - c[0]), abs(yy - c[1]), abs(zz - c[2])) if kind == "moore" else \
                        abs(xx - c[0]) + abs(yy - c[1]) + abs(zz - c[2])
                    if dist <= rr and (ic or dist != 0):
                        cells.append((xx, yy, zz))
        want = cells if ret is tuple else [zz * max(cw, 1) * max(ch, 1) + yy * max(cw, 1) + xx for xx, yy, zz in cells]
        return {"reproduced": got != want, "shape": (cw, ch, cd), "centre": c, "centre_form": centre_form, "radius": rr,
                "incl_center": ic, "ret_type": form, "got": got[:40], "expected": want[:40],
                "what": "%s neighbourhood differs from the metric ball clipped to the grid" % kind}

    r_, model = q.check(tag + "unwinding assertion (loops need no more than %d iterations)" % (2 * R + 1), pre + [z3.Or(K.unwinding)], "unsat")
    if r_ == "sat":
        ctx.q.failed = ("unwinding", "inconclusive", "unwinding assertion violated: bound too small", model)
        return
    r_, model = q.check(tag + "no exception", pre + [z3.Or([g for g, v in raises])] if raises else pre + [z3.BoolVal(False)], "unsat")
    if r_ == "sat":
        ctx.report_cex("no_exception", model, replay(model))
        return
    ddx, ddy, ddz = zabs(px - cx), zabs(py - cy), zabs(pz - cz)
    dist = zmax(ddx, zmax(ddy, ddz)) if kind == "moore" else ddx + ddy + ddz
    ingrid = in_table(px, py, pz, w, h, d)
    spec = z3.And(ingrid, dist <= r, z3.Or(incl, dist != 0))
    if ret is tuple:
        def hit(v):
            return z3.And(v[0] == px, v[1] == py, v[2] == pz)
        probe_dom = z3.BoolVal(True)
    else:
        prank = rank(px, py, pz, w, h)

        def hit(v):
            return v == prank
        probe_dom = ingrid           # ids are probed through the rank of an in-grid probe cell ...
    cnt = z3.Sum([z3.If(z3.And(g, hit(v)), 1, 0) for g, v in lst.entries])
    r_, model = q.check(tag + "each cell of the clipped metric ball exactly once, nothing else (symbolic probe cell)",
                        pre + [probe_dom, cnt != z3.If(spec, 1, 0)], "unsat")
    if r_ == "sat":
        ctx.report_cex("exact", model, replay(model))
        return
    if ret is int:
        # ... and no returned id lies outside the table
        oob = z3.Or([z3.And(g, z3.Or(v < 0, v >= m1(w) * m1(h) * m1(d))) for g, v in lst.entries])
        r_, model = q.check(tag + "every returned id denotes a cell of the table", pre + [oob], "unsat")
        if r_ == "sat":
            ctx.report_cex("id_in_table", model, replay(model))
            return
    if ctx.part.get("no_order"):
        return
    # ascending cell order: for any two present entries the later one has the larger rank
    # ascending cell order, with two symbolic probe cells P <lex Q that are both in the answer: the (unique, by
    # exactness) program position of P's entry precedes that of Q's.  Cell order = table rank = lexicographic (z,y,x).
    qx, qy, qz = z3.Ints('qx qy qz')
    ents = lst.entries
    if ret is tuple:
        hit_p = [z3.And(g, v[0] == px, v[1] == py, v[2] == pz) for g, v in ents]
        hit_q = [z3.And(g, v[0] == qx, v[1] == qy, v[2] == qz) for g, v in ents]
    else:
        hit_p = [z3.And(g, v == rank(px, py, pz, w, h)) for g, v in ents]
        hit_q = [z3.And(g, v == rank(qx, qy, qz, w, h)) for g, v in ents]
    idx_p = z3.Sum([z3.If(c, k, 0) for k, c in enumerate(hit_p)])
    idx_q = z3.Sum([z3.If(c, k, 0) for k, c in enumerate(hit_q)])
    p_in = z3.Or(hit_p)
    q_in = z3.Or(hit_q)
    lex = z3.Or(pz < qz, z3.And(pz == qz, z3.Or(py < qy, z3.And(py == qy, px < qx))))
    both_grid = z3.And(ingrid, in_table(qx, qy, qz, w, h, d))
    r_, model = q.check(tag + "ascending cell order (two symbolic probe cells)",
                        pre + [both_grid, p_in, q_in, lex, idx_p >= idx_q], "unsat")
    if r_ == "sat":
        ctx.report_cex("ascending", model, replay(model))
        return


class _RealCells(_Cells):
    """cells stand-in backed by the REAL position table of a concrete world (built by the real constructor)"""

    def __init__(self, table):
        self.table = table
        self.iloc = _ILoc()

    def ksubscript(self, idx, interp, frame, guard):
        if idx == 'pos':
            return _RealPosColumn(self.table)
        raise Untranslatable("cells[%r] not modelled" % (idx,))


class _RealPosColumn:
    def __init__(self, table):
        self.table = table

    def ksubscript(self, idx, interp, frame, guard):
        if not isinstance(idx, z3.ExprRef):
            return self.table[idx]
        out = []
        for axis in range(3):
            t = z3.IntVal(self.table[-1][axis])
            for i in range(len(self.table) - 2, -1, -1):
                t = z3.If(idx == i, z3.IntVal(self.table[i][axis]), t)
            out.append(t)
        return tuple(out)


def neighbours_id_centre(ctx):
    """centre given as cell id, resolved through the REAL position table of every concrete shape with extents <= N;
    radius unbounded.  Decides: the answer for id-form centres is the metric ball around the cell the table gives."""
    kind, N, form = ctx.part["kind"], ctx.part["N"], ctx.part["ret"]
    ret = int if form == "int" else tuple
    cid, r = z3.Ints('cid r')
    px, py, pz = z3.Ints('px py pz')
    incl = z3.Bool('incl')
    q = ctx.q
    first = True
    for (cw, ch, cd) in itertools.product(range(N + 1), repeat=3):
        real = E.DiscreteWorld(Model(), cw, ch, cd)
        table = [tuple(int(c) for c in p) for p in real.cells['pos']]
        env = E.DiscreteWorld(Model(), cw, ch, cd)
        env.cells = _RealCells(table)
        K = Interp(unroll=N + 1)
        fn = env.get_moore_neighbours if kind == "moore" else env.get_neumann_neighbours
        outs = K.call(fn, [cid, r, incl, ret])
        ctx.encoded.update(K.encoded)
        g_ret, lst = _ret(outs)
        raises = [(g, v) for g, k, v in outs if k == "raise"]
        W, H, D = max(cw, 1), max(ch, 1), max(cd, 1)
        pre = [r >= 0, 0 <= cid, cid < W * H * D]
        # the centre cell: independent decoding of the id by the table rank
        cx, cy, cz = cid % W, (cid / W) % H, cid / (W * H)
        if first:
            q.check("pre satisfiable", pre, "sat")
            first = False
        if K.unwinding:
            r_, model = q.check("%dx%dx%d unwinding" % (cw, ch, cd), pre + [z3.Or(K.unwinding)], "unsat")
            if r_ != "unsat":
                return
        ddx, ddy, ddz = zabs(px - cx), zabs(py - cy), zabs(pz - cz)
        dist = zmax(ddx, zmax(ddy, ddz)) if kind == "moore" else ddx + ddy + ddz
        ingrid = z3.And(0 <= px, px < W, 0 <= py, py < H, 0 <= pz, pz < D)
        spec = z3.And(ingrid, dist <= r, z3.Or(incl, dist != 0))
        if ret is tuple:
            cnt = z3.Sum([z3.If(z3.And(g, v[0] == px, v[1] == py, v[2] == pz), 1, 0) for g, v in lst.entries])
            dom = z3.BoolVal(True)
        else:
            cnt = z3.Sum([z3.If(z3.And(g, v == pz * W * H + py * W + px), 1, 0) for g, v in lst.entries])
            dom = ingrid
        bad = z3.Or([g for g, v in raises]) if raises else z3.BoolVal(False)
        r_, model = q.check("%dx%dx%d id-form centre: exact ball, no exception" % (cw, ch, cd),
                            pre + [z3.Or(bad, z3.And(dom, cnt != z3.If(spec, 1, 0)))], "unsat")
        if r_ == "sat":
            c_id = _num(model, 'cid')
            rr = _num(model, 'r')
            ic = str(model.get('incl', 'False')) == 'True'
            rfn = real.get_moore_neighbours if kind == "moore" else real.get_neumann_neighbours
            c = table[c_id]
            try:
                got = list(rfn(c_id, rr, ic, ret))
            except Exception as e:
                got = repr(e)
            cells = []
            for zz in range(D):
                for yy in range(H):
                    for xx in range(W):
                        dd = max(abs(xx - c[0]), abs(yy - c[1]), abs(zz - c[2])) if kind == "moore" else \
                            abs(xx - c[0]) + abs(yy - c[1]) + abs(zz - c[2])
                        if dd <= rr and (ic or dd != 0):
                            cells.append((xx, yy, zz))
            want = cells if ret is tuple else [zz * W * H + yy * W + xx for xx, yy, zz in cells]
            ctx.report_cex("id_centre_exact", dict(model, shape=str((cw, ch, cd))),
                           {"reproduced": got != want, "shape": (cw, ch, cd), "centre_id": c_id, "centre_cell": c, "radius": rr,
                            "incl_center": ic, "ret_type": form, "got": got if isinstance(got, str) else got[:40],
                            "expected": want[:40], "what": "%s neighbourhood of an id-form centre" % kind})
            return
