"""Obligation descriptors used by the harness modules."""


class X:
    """One CrossHair obligation: harness function x list of concrete partitions."""
    engine = "X"

    def __init__(self, name, fn, parts=None, labels=("main",), timeout=60, per_path=20, encoded=(), bounds=None,
                 outside=(), stubs=(), assumptions=(), role="property", finding=None, group=1, labels_for=None):
        self.name = name
        # labels_for(part) -> labels whose twin is run in that partition (default: all)
        self.labels_for = labels_for or (lambda part: tuple(labels))
        self.fn = fn
        self.parts = list(parts) if parts else [{}]
        self.labels = tuple(labels)         # reach labels; each must be refuted in >= 1 partition
        self.timeout = timeout              # CrossHair per_condition_timeout per partition (seconds)
        self.per_path = per_path
        self.encoded = tuple(encoded)       # real functions/classes of /repo executed symbolically
        self.bounds = dict(bounds or {})
        self.outside = tuple(outside)
        self.stubs = tuple(stubs)
        self.assumptions = tuple(assumptions)
        # role: "property" (must hold; cex => violation)
        #       "finding_prop" (property restricted to the class of known finding `finding`;
        #                        refuted+replayed => KNOWN-FINDING line, confirmed => finding gone)
        #       "finding_recorded" (on the class: property holds OR recorded deviating behaviour; must hold)
        self.role = role
        self.finding = finding
        self.group = group                  # partitions per worker process


class K:
    """One lifter obligation: a callable run(ctx) -> list of query results (see vf.kengine)."""
    engine = "K"

    def __init__(self, name, run, params=None, timeout=120, encoded=(), bounds=None, outside=(), stubs=(),
                 assumptions=(), role="property", finding=None, parts=None):
        self.name = name
        self.run = run
        self.params = dict(params or {})
        self.parts = list(parts) if parts else [{}]
        self.timeout = timeout
        self.encoded = tuple(encoded)
        self.bounds = dict(bounds or {})
        self.outside = tuple(outside)
        self.stubs = tuple(stubs)
        self.assumptions = tuple(assumptions)
        self.role = role
        self.finding = finding
        self.labels = ()
