"""Solver-based checking of ECAgent: CrossHair driver (engine X) + AST->z3 lifter (engine K)."""
