"""C12 - positional queries return exactly the agents inside the leeway box (engine X for ints, K for reals).

Known finding F5: in a wrapping world the distance is NOT measured around the seam (the code ignores wrap_env).
"""
import vf.hx as hx
from vf.spec import X, K
from vf.stubs import NULL_LOGGER
from ECAgent.Core import Model, Agent
import ECAgent.Environments as Env
from ECAgent.Environments import PositionComponent, SpaceWorld

_REAL = {}


_REAL_LINE = []


def _real():
    if not _REAL_LINE:
        _REAL_LINE.append(Env.LineWorld(Model(), 10))
    if not _REAL:
        _REAL['grid'] = Env.GridWorld(Model(), 6, 5)


_real()


def _world(m, kind, w, h, d, wrap):
    if kind == 'free':                     # zero-extent continuous world: any point is a legal position
        env = SpaceWorld(m, 0, 0, 0, wrap_env=wrap)
    elif kind == 'space':
        env = SpaceWorld(m, w, h, d, wrap_env=wrap)
    else:
        env = _REAL[kind]
        env.agents.clear()
        env.components.clear()
        env.set_model(m)
        env.wrap_env = wrap
    m.environment = env
    return env


class Ant(Agent):
    """agent class that carries a CLASS-level PositionComponent (e.g. the colony's nest); instances have their own"""


def _put(m, env, name, x, y, z):
    if hx.P.get('class_pos'):
        Ant._components.clear()
        Ant.add_class_component(PositionComponent(Ant, m, 5, 5, 0))
        a = Ant(name, m)
    elif hx.P.get('nested'):
        from ECAgent.Core import Environment
        a = Environment(m, id=name)        # an (empty) sub-environment placed like any other agent: a nest, a patch
    else:
        a = Agent(name, m)
    a.add_component(PositionComponent(a, m, x, y, z))
    env.agents[a.id] = a
    return a


def _absdiff(a, b):
    return a - b if a >= b else b - a


def _in_box(p, q, leeway, axis_leeway):
    lw = axis_leeway if axis_leeway > leeway else leeway        # the larger of the general and the per-axis leeway
    return _absdiff(p, q) <= lw


def box_int(x0: int, y0: int, z0: int, x1: int, y1: int, z1: int, qx: int, qy: int, qz: int,
            lw: int, lx: int, ly: int, lz: int, w: int, h: int) -> bool:
    """
    pre: w >= 1 and h >= 1
    post: _
    """
    hx.begin()
    kind, nag, axes = hx.P['world'], hx.P['n'], hx.P['axes']
    m = Model(logger=NULL_LOGGER)
    env = _world(m, kind, w, h if 'y' in axes else 0, 0, False)
    # agents stand at legal positions of their world (I8): anywhere in a zero-extent world, 0..extent in a continuous
    # world, 0..extent-1 in a grid world
    if kind != 'free':
        off = 1 if isinstance(env, Env.DiscreteWorld) else 0      # (by kind of world, not read back from the implementation)
        for (px, py) in ((x0, y0), (x1, y1)):
            if not (0 <= px <= env.width - off):
                return hx.end(True)
            if env.height > 0 and 'y' in axes and not (0 <= py <= env.height - off):
                return hx.end(True)
    # `axes` selects which coordinates are symbolic (the others are 0 and the query matches them): splits the work
    if 'y' not in axes:
        y0 = y1 = qy = ly = 0
    if 'z' not in axes:
        z0 = z1 = qz = lz = 0
    if hx.P.get('detached'):
        # the world queried is NOT the one registered as model.environment (a second spatial layer of the same model):
        # the registered one holds an agent of its own at the query point, which must not show up
        from ECAgent.Core import Environment
        main = Environment(m, id="MAIN")
        m.set_environment(main)
        intruder = Agent("intruder", m)
        intruder.add_component(PositionComponent(intruder, m, qx, qy, qz))
        main.agents[intruder.id] = intruder
    # (identifiers whose alphabetical order is NOT the joining order: the answer is in joining order)
    ags, where = [], []                    # the oracle uses the positions the agents were given, not a read-back
    if nag >= 1:
        ags.append(_put(m, env, "wolf", x0, y0, z0))
        where.append((x0, y0, z0))
    if nag >= 2:
        ags.append(_put(m, env, "sheep", x1, y1, z1))
        where.append((x1, y1, z1))
    if nag >= 3:
        # a third agent at one of four concrete positions (join order and independence of the per-agent decisions)
        tx, ty, tz = hx.P['third']
        ags.append(_put(m, env, "grass", tx, ty, tz))
        where.append((tx, ty, tz))
    got = env.get_agents_at(qx, qy, qz, leeway=lw, x_leeway=lx, y_leeway=ly, z_leeway=lz)
    exp = []
    for a, (px_, py_, pz_) in zip(ags, where):
        if _in_box(px_, qx, lw, lx) and _in_box(py_, qy, lw, ly) and _in_box(pz_, qz, lw, lz):
            exp.append(a)
    if len(exp) == 0:
        hx.reach('none')
    if 0 < len(exp) < len(ags):
        hx.reach('some')
    if len(exp) == len(ags) and len(ags) > 0:
        hx.reach('all')
    if not hx.same_seq(got, exp):
        return hx.end(hx.fail("agents in the leeway box", got=[a.id for a in got], exp=[a.id for a in exp],
                              positions=where, query=(qx, qy, qz), leeways=(lw, lx, ly, lz)))
    if len(exp) == 0 and got != []:
        return hx.end(hx.fail("empty result is not []"))
    # the answer is the caller's own list: whatever the caller does to it does not show in the next answer
    got.append("mine")
    again = env.get_agents_at(qx, qy, qz, leeway=lw, x_leeway=lx, y_leeway=ly, z_leeway=lz)
    if not hx.same_seq(again, exp):
        return hx.end(hx.fail("the same query answered differently after the caller extended the first answer",
                              got=[getattr(a, "id", a) for a in again], exp=[a.id for a in exp]))
    return hx.end(True)


def after_move(x0: int, dx: int, qx: int, lw: int, rm: bool) -> bool:
    """
    pre: 0 <= x0 <= 9
    post: _
    """
    # agents moved or removed since placement: the query sees the current positions / residents
    hx.begin()
    m = Model(logger=NULL_LOGGER)
    if hx.P.get('world') == 'line':
        env = _REAL_LINE[0]                   # a real LineWorld of 10 cells (0..9)
        env.agents.clear()
        env.components.clear()
        env.set_model(m)
    else:
        env = SpaceWorld(m, 9, 0, 0)
    m.environment = env
    a, b = Agent("a", m), Agent("b", m)
    env.add_agent(a, x0)
    env.add_agent(b, 4)
    env.move(a, dx)
    nx = x0 + dx
    nx = 9 if nx > 9 else 0 if nx < 0 else nx
    if rm:
        env.remove_agent("b")
        hx.reach('removed')
    got = env.get_agents_at(qx, 0, 0, leeway=lw)     # (int literals: the float defaults 0.0 would make the leeway arithmetic symbolic-float)
    exp = []
    if _absdiff(nx, qx) <= (lw if lw > 0 else 0):
        exp.append(a)
    if not rm and _absdiff(4, qx) <= (lw if lw > 0 else 0):
        exp.append(b)
    if exp:
        hx.reach('found')
    return hx.end(hx.same_seq(got, exp) or hx.fail("query after move/remove", got=[g.id for g in got], exp=[e.id for e in exp]))


def after_move_to(x0: int, y0: int, tx: int, ty: int, tz: int, qx: int, qy: int, lw: int) -> bool:
    """
    pre: 0 <= x0 <= 9 and 0 <= y0 <= 6
    post: _
    """
    # an absolute move is either carried out completely or rejected (IndexError) and then changes nothing: the query
    # afterwards sees the agent exactly at the position it has been GIVEN (never at a mixture of old and new coordinates)
    hx.begin()
    m = Model(logger=NULL_LOGGER)
    kind = hx.P['world']
    if kind == 'space':
        env = SpaceWorld(m, 9, 6, 0)
        m.environment = env
        maxx, maxy = 9, 6
    else:
        env = _world(m, 'grid', 6, 5, 0, False)
        maxx, maxy = 5, 4
        if x0 > maxx or y0 > maxy:
            return hx.end(True)
    a, b = Agent("a", m), Agent("b", m)
    env.add_agent(a, x0, y0)
    env.add_agent(b, 2, 2)
    legal = 0 <= tx <= maxx and 0 <= ty <= maxy        # (z: the world has no depth, any z is accepted)
    try:
        env.move_to(a, tx, ty, tz)
        if not legal:
            return hx.end(hx.fail("out-of-range move_to accepted", target=(tx, ty, tz)))
        pos = (tx, ty)
        hx.reach('moved')
    except IndexError:
        if legal:
            return hx.end(hx.fail("in-range move_to rejected", target=(tx, ty, tz)))
        pos = (x0, y0)
        hx.reach('rejected')
    got = env.get_agents_at(qx, qy, tz if legal else 0, leeway=lw)
    l0 = lw if lw > 0 else 0
    exp = []
    if _absdiff(pos[0], qx) <= l0 and _absdiff(pos[1], qy) <= l0:
        exp.append(a)
    if _absdiff(2, qx) <= l0 and _absdiff(2, qy) <= l0 and _absdiff(0, tz if legal else 0) <= l0:
        exp.append(b)
    if a in exp:
        hx.reach('found')
    return hx.end(hx.same_seq(got, exp) or hx.fail("query after move_to", given=pos, target=(tx, ty, tz), query=(qx, qy), leeway=lw,
                                                   got=[g.id for g in got], exp=[e.id for e in exp]))


def _seam_dist(p, q, e):
    d = _absdiff(p, q) % e
    return d if d <= e - d else e - d


def wrap_box(x0: int, qx: int, lw: int) -> bool:
    """
    pre: 0 <= x0 < hx.P['w']
    pre: lw >= 0
    post: _
    """
    # wrapping world, one positive axis: distance measured around the seam, as documented
    hx.begin()
    mode, w = hx.P['mode'], hx.P['w']          # extent concrete per partition (the seam distance is then linear)
    m = Model(logger=NULL_LOGGER)
    env = _world(m, 'space', w, 0, 0, True)
    a = _put(m, env, "a", x0, 0, 0)
    got = env.get_agents_at(qx, 0, 0, leeway=lw)     # (int literals: the float defaults 0.0 would make the leeway arithmetic symbolic-float)
    plain = _absdiff(x0, qx) <= lw
    seam = _seam_dist(x0, qx, w) <= lw
    crosses = plain != seam            # class F5: the box reaches the agent only across a seam
    if mode == 'outside':
        if crosses:
            return hx.end(True)
        hx.reach('no_seam')
        return hx.end(hx.same_seq(got, [a] if seam else []) or hx.fail("wrapping world, box not crossing a seam"))
    if not crosses:
        return hx.end(True)
    hx.reach('seam')
    if mode == 'prop':
        return hx.end(hx.same_seq(got, [a] if seam else []))
    # recorded deviating behaviour: the plain (un-wrapped) box
    return hx.end(hx.same_seq(got, [a] if seam else []) or hx.same_seq(got, [a] if plain else [])
                  or hx.fail("F5: unrecorded behaviour"))


def k_box_real(ctx):
    from vf import kq_spatial
    return kq_spatial.box_real(ctx)


BOUNDS = {"quick": {"agents per query": "<= 2 fully symbolic (+1 at a concrete position)", "positions, query point, leeways": "all ints (negative leeways included)"},
          "thorough": {"agents per query": "<= 2 fully symbolic (+1)", "axes": "x, xy, xyz"}}
OUTSIDE = ["rounding of q +/- leeway on doubles at the faces of the box (the Float64 monotonicity lemma did not finish in 300 s; DESIGN.md section 6)",
           "more than 3 agents per query (the filter is per agent)"]
STUBS = ["real GridWorld and LineWorld built once concretely", "Model.logger replaced by a no-op logger"]
ASSUMPTIONS = ["agents are written directly at arbitrary integer positions of a zero-extent continuous world (every point is legal there)"]


def obligations(tier):
    enc = (SpaceWorld.get_agents_at,)
    parts = [{"world": "free", "n": 1, "axes": "xyz"}, {"world": "free", "n": 2, "axes": "x"}, {"world": "grid", "n": 1, "axes": "xy"},
             {"world": "space", "n": 1, "axes": "xy"}]
    parts += [{"world": "free", "n": 3, "axes": "x", "third": t} for t in ([0, 0, 0], [5, 0, 0], [-3, 0, 0], [5, 1, 0])]
    parts += [{"world": "free", "n": 1, "axes": "xy", "class_pos": True}]
    parts += [{"world": w, "n": 0, "axes": "xy"} for w in ("free", "grid", "space")]       # a world that holds no agent (yet / any more)
    parts += [{"world": "free", "n": 2, "axes": "x", "nested": True}, {"world": "grid", "n": 1, "axes": "xy", "nested": True},
              {"world": "free", "n": 2, "axes": "x", "detached": True}, {"world": "grid", "n": 1, "axes": "xy", "detached": True}]
    if tier != "quick":
        parts += [{"world": "free", "n": 2, "axes": "xy"}, {"world": "grid", "n": 2, "axes": "xy"}]
    W = (2, 3, 10) if tier == "quick" else (1, 2, 3, 4, 7, 10)
    obs = [
        X("box_int", box_int, parts=parts, labels=("none", "some", "all"),
          labels_for=lambda p: ("none",) if p["n"] == 0 else ("none", "all") if p["n"] == 1 else ("none", "some", "all"), timeout=1800, encoded=enc),
        X("after_move", after_move, parts=[{"world": "space"}, {"world": "line"}], labels=("removed", "found"), timeout=600, encoded=enc + (SpaceWorld.move, SpaceWorld.remove_agent)),
        X("after_move_to", after_move_to, parts=[{"world": "space"}, {"world": "grid"}], labels=("moved", "rejected", "found"), timeout=600,
          encoded=enc + (SpaceWorld.move_to,), bounds={"world": "10x7 continuous / 6x5 grid, 2 agents", "start, target, query point, leeway": "all ints"}),
        X("wrap_outside_F5", wrap_box, parts=[{"mode": "outside", "w": w} for w in W], labels=("no_seam",), timeout=600, encoded=enc,
          bounds={"extent": "one of %s; position, query point, leeway >= 0: all ints" % (W,)}),
        X("wrap_seam.prop", wrap_box, parts=[{"mode": "prop", "w": 10}], labels=("seam",), timeout=600, encoded=enc, role="finding_prop", finding="F5"),
        X("wrap_seam.recorded", wrap_box, parts=[{"mode": "recorded", "w": w} for w in W], labels=("seam",), timeout=600, encoded=enc,
          role="finding_recorded", finding="F5"),
        K("box_real", k_box_real, timeout=300, encoded=enc, bounds={"positions, query point, leeways": "all reals; 2 agents"}),
    ]
    return obs
