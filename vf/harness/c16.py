"""C16 - grid search scores every combination correctly and returns the true best (engine X).

Known finding F6: a parameter named 'records' or 'score' is overwritten in the reported dictionary.
"""
import vf.hx as hx
from vf.spec import X
from vf.stubs import FakePool, NULL_LOGGER
import ECAgent.Batching as B
from ECAgent.Batching import ScoreMode
from ECAgent.Core import Model, System

MODES = [ScoreMode.MIN, ScoreMode.MAX, ScoreMode.MIN_MEAN, ScoreMode.MAX_MEAN, ScoreMode.MIN_SUM, ScoreMode.MAX_SUM,
         ScoreMode.MIN_VARIANCE, ScoreMode.MAX_VARIANCE]


class TaggedStats:
    """Stand-in for the `statistics` module: records its argument, returns an opaque value per call."""

    def __init__(self, mean_vals, var_vals):
        self.calls = []
        self.mean_vals, self.var_vals = list(mean_vals), list(var_vals)

    def mean(self, data):
        self.calls.append(("mean", data))
        return self.mean_vals[len([c for c in self.calls if c[0] == "mean"]) - 1]

    def variance(self, data):
        self.calls.append(("variance", data))
        return self.var_vals[len([c for c in self.calls if c[0] == "variance"]) - 1]

    def __getattr__(self, n):
        # any other function of the module: recorded under its own name, opaque result
        def other(data, *a, **k):
            self.calls.append((n, data))
            return ("statistics." + n, data)
        return other


def _aggregate_through_api(recs, mode):
    """the aggregate of ONE combination whose repetitions score recs[0], recs[1], ... - through the public grid_search"""
    GM.built, GM.typed = [], ()
    GM.table = {(0, r): recs[r] for r in range(len(recs))}
    best, results = B.grid_search(GM, {"x": [0]}, _score, processes=1, repetitions=len(recs), mode=mode)
    if len(results) != 1 or best is not results[0]:
        raise AssertionError("one combination must give one result, which is the best")
    return results[0]["score"], results[0]["records"]


def aggregate_linear(a: int, b: int, c: int, n: int, mi: int) -> bool:
    """
    pre: 1 <= n <= 3
    pre: mi in (0, 1, 4, 5)
    post: _
    """
    hx.begin()
    recs = [a, b, c][:n]
    if 'records' in hx.P:
        recs = list(hx.P['records'])         # plain Python integers beyond 2**53 (a detour through floats would round them)
    mode = hx.pick(MODES, mi)
    got, reported = _aggregate_through_api(recs, mode)
    if reported != recs:
        return hx.end(hx.fail("reported individual scores", got=reported, exp=recs))
    snapshot = list(recs) if 'records' in hx.P else [a, b, c][:n]
    a = recs[0]
    if mi == 0:
        exp = a
        for x in recs[1:]:
            if x < exp:
                exp = x
        hx.reach('min')
    elif mi == 1:
        exp = a
        for x in recs[1:]:
            if x > exp:
                exp = x
        hx.reach('max')
    else:
        exp = 0
        for x in recs:
            exp = exp + x
        hx.reach('sum')
    if got != exp:
        return hx.end(hx.fail("aggregate", mode=mode.name, records=recs, got=got, exp=exp))
    return hx.end(recs == snapshot)


def aggregate_dispatch(a: int, b: int, mv: int, vv: int, mi: int) -> bool:
    """
    pre: 0 <= mi < 10
    post: _
    """
    hx.begin()
    st = TaggedStats([mv], [vv])
    saved = B.stats
    B.stats = st
    try:
        recs = [a, b]
        if mi >= 8:
            hx.reach('invalid_mode')
            try:
                _aggregate_through_api(recs, 8 if mi == 8 else -1)
                return hx.end(hx.fail("invalid mode accepted"))
            except ValueError:
                return hx.end(st.calls == [])
        mode = hx.pick(MODES, mi)
        got, reported = _aggregate_through_api(recs, mode)
        if reported != recs:
            return hx.end(hx.fail("reported individual scores", got=reported, exp=recs))
        if mi in (2, 3):
            hx.reach('mean')
            ok = len(st.calls) == 1 and st.calls[0][0] == "mean" and list(st.calls[0][1]) == recs and got is mv
        elif mi in (6, 7):
            hx.reach('variance')
            ok = len(st.calls) == 1 and st.calls[0][0] == "variance" and list(st.calls[0][1]) == recs and got is vv
        else:
            ok = st.calls == []
        if not ok:
            return hx.end(hx.fail("dispatch to statistics", mode=mode.name, calls=[c[0] for c in st.calls]))
        return hx.end(recs == [a, b])
    finally:
        B.stats = saved


def _key(x):
    """1, True and 1.0 are equal and hash alike - and are three different parameter values"""
    return (type(x).__name__, x)


class GM(Model):
    """model whose score is looked up from a table by its parameter and the repetition number"""
    __slots__ = ['x', 'rep']
    built = []
    table = {}
    typed = ()

    def __init__(self, x, **extra):
        super().__init__(logger=NULL_LOGGER)
        self.x = x
        GM.built.append(self)
        self.rep = len([m for m in GM.built if _key(m.x) == _key(x)]) - 1
        self.complete()


def _score(model):
    return GM.table[(_key(model.x), model.rep)] if _key(model.x) in GM.typed else GM.table[(model.x, model.rep)]


def selection(s0: int, s1: int, s2: int, s3: int, parity: bool, o0: int, o1: int, o2: int, s4: int = 0, s5: int = 0) -> bool:
    """
    pre: o0 >= 0 and o1 >= 0 and o2 >= 0
    post: _
    """
    # one repetition, MIN/MAX mode: the aggregate of combination i is exactly s_i (any int: ties, negative, huge)
    hx.begin()
    k, procs = hx.P['k'], hx.P['procs']
    scores = [s0, s1, s2, s3, s4, s5][:k]
    if 'offsets' in hx.P:
        # large, nearly tied scores: base + small offsets (ties are exact equality, not "close enough"); the order of the
        # offsets among the combinations is the solver's (s0 picks a rotation)
        offs = hx.P['offsets']
        rot = s0 % k
        scores = [10 ** 12 + offs[(i + rot) % k] for i in range(k)]
    GM.built = []
    GM.table = {(i, 0): scores[i] for i in range(k)}
    GM.typed = ()
    values = list(range(k))
    if hx.P.get('values') == 'equal_but_distinct':
        values = [1, True, 1.0, 0, False][:k]
        GM.typed = tuple(_key(v) for v in values)
        GM.table = {(_key(values[i]), 0): scores[i] for i in range(k)}
    mode = ScoreMode.MAX if parity else ScoreMode.MIN
    saved = B.Pool
    B.Pool = FakePool
    FakePool.order = [o0, o1, o2]          # the pool completes work in an arbitrary (symbolic) order
    try:
        xs = list(values)
        if hx.P.get('values') == 'iterator':        # a one-shot, length-less iterable of values is still a list of values
            xs = iter(xs)
        elif hx.P.get('values') == 'generator':
            xs = (i for i in range(k))
        best, results = B.grid_search(GM, {"x": xs}, _score, processes=procs, mode=mode)
    finally:
        B.Pool = saved
    if len(results) != k:
        return hx.end(hx.fail("number of results", got=len(results)))
    for i, r in enumerate(results):
        if _key(r.get("x")) != _key(values[i]) or r.get("records") != [scores[i]] or r.get("score") != scores[i] or len(r) != 3:
            return hx.end(hx.fail("reported combination", index=i, got=r))
    # the first combination attaining the optimum
    bi = 0
    for i in range(1, k):
        if (parity and scores[i] > scores[bi]) or ((not parity) and scores[i] < scores[bi]):
            bi = i
    if bi == k - 1 and k > 1:
        hx.reach('best_last')
    if bi == 0:
        hx.reach('best_first')
    if best is not hx.pick(results, bi):
        return hx.end(hx.fail("best combination", mode=mode.name, scores=scores, got_index=[i for i, r in enumerate(results) if r is best],
                              exp_index=bi))
    return hx.end(True)


class _Fuse(System):
    def execute(self):
        if self.model.systems.timestep >= 40:
            self.model.complete()


class GRun(Model):
    """a model that keeps running far beyond any step limit used here (a fuse completes it at timestep 40, so that a
    runner which loses the limit is refuted instead of running for ever)"""
    __slots__ = ['x']

    def __init__(self, x):
        super().__init__(logger=NULL_LOGGER)
        self.x = x
        self.systems.add_system(_Fuse("fuse", self))


def _score_steps(model):
    return model.systems.timestep * 10 + model.x


def step_limit(mx: int) -> bool:
    """
    pre: 0 <= mx <= 4
    post: _
    """
    # the explicit step limit reaches every execution, whatever the number of worker processes: models still running at
    # the limit are scored there
    hx.begin()
    procs = hx.P['procs']
    saved = B.Pool
    B.Pool = FakePool
    FakePool.order = [1, 0, 1]
    try:
        best, results = B.grid_search(GRun, {"x": [0, 1, 2]}, _score_steps, processes=procs, max_timesteps=mx, mode=ScoreMode.MAX)
    finally:
        B.Pool = saved
    hx.reach('searched')
    want = [mx * 10 + x for x in (0, 1, 2)]
    got = [r.get("score") for r in results]
    if got != want or [r.get("x") for r in results] != [0, 1, 2]:
        return hx.end(hx.fail("scores of models that were still running at the step limit", got=got, exp=want, processes=procs, limit=mx))
    return hx.end(best is results[2])


class Inner(Model):
    __slots__ = ['y']

    def __init__(self, y):
        super().__init__(logger=NULL_LOGGER)
        self.y = y
        self.complete()


def nested_search(s0: int, s1: int, s2: int, i0: int, i1: int) -> bool:
    """
    post: _
    """
    # the score function of the outer search tunes an inner parameter with a search of its own (re-entrancy): every outer
    # combination is still evaluated with the OUTER model class, score function and repetition count
    hx.begin()
    procs = hx.P['procs']
    outer_scores = [s0, s1, s2]
    inner_scores = {0: i0, 1: i1}
    calls = []

    def inner_score(model):
        return inner_scores[model.y]

    def outer_score(model):
        best_inner, _ = B.grid_search(Inner, {"y": [0, 1]}, inner_score, processes=1, repetitions=1, mode=ScoreMode.MAX)
        calls.append((model.x, best_inner["score"]))
        return outer_scores[model.x]
    GM.built, GM.typed, GM.table = [], (), {}
    saved = B.Pool
    B.Pool = FakePool
    FakePool.order = [0, 1, 0]
    try:
        best, results = B.grid_search(GM, {"x": [0, 1, 2]}, outer_score, processes=procs, repetitions=2, mode=ScoreMode.MIN)
    finally:
        B.Pool = saved
    hx.reach('searched')
    want_inner = i1 if i1 > i0 else i0
    if len(calls) != 6 or any(c[1] != want_inner for c in calls):
        return hx.end(hx.fail("inner searches", calls=calls, exp_inner_best=want_inner))
    for x in (0, 1, 2):
        r = results[x]
        if r.get("x") != x or r.get("records") != [outer_scores[x]] * 2 or r.get("score") != outer_scores[x]:
            return hx.end(hx.fail("outer combination evaluated with the wrong model / score function / repetitions", x=x, got=r))
    return hx.end(True)


def repetitions(a0: int, a1: int, a2: int, b0: int, b1: int, b2: int, mi: int) -> bool:
    """
    pre: mi in (0, 1, 4, 5)
    post: _
    """
    hx.begin()
    reps, procs = hx.P['reps'], hx.P['procs']
    tab = {0: [a0, a1, a2][:reps], 1: [b0, b1, b2][:reps]}
    GM.built = []
    GM.table = {(x, r): tab[x][r] for x in (0, 1) for r in range(reps)}
    mode = hx.pick(MODES, mi)
    saved = B.Pool
    B.Pool = FakePool
    try:
        best, results = B.grid_search(GM, {"x": [0, 1]}, _score, processes=procs, repetitions=reps, mode=mode)
    finally:
        B.Pool = saved
    # each combination built and run `reps` times on fresh models, in order
    if [m.x for m in GM.built] != [0] * reps + [1] * reps:
        return hx.end(hx.fail("models built", got=[m.x for m in GM.built]))
    for i in range(len(GM.built)):
        for j in range(i + 1, len(GM.built)):
            if GM.built[i] is GM.built[j]:
                return hx.end(hx.fail("a model was reused between repetitions"))
    aggs = []
    for x in (0, 1):
        r = results[x]
        if r["x"] != x or r["records"] != tab[x]:
            return hx.end(hx.fail("records of a combination", x=x, got=r["records"], exp=tab[x]))
        if mi == 0:
            agg = min(tab[x])
        elif mi == 1:
            agg = max(tab[x])
        else:
            agg = sum(tab[x])
        if r["score"] != agg:
            return hx.end(hx.fail("aggregate of a combination", x=x, got=r["score"], exp=agg))
        aggs.append(agg)
    is_min = mi in (0, 4)
    bi = 1 if ((is_min and aggs[1] < aggs[0]) or ((not is_min) and aggs[1] > aggs[0])) else 0
    if bi == 1:
        hx.reach('second_best')
    else:
        hx.reach('first_best')
    return hx.end(best is results[bi])


def reuse(s0: int, s1: int, t0: int, t1: int, parity: bool) -> bool:
    """
    post: _
    """
    # one ParameterList object used for two searches in a row (and inspected in between): every search evaluates and
    # reports the unmodified declared parameters
    hx.begin()
    procs2 = hx.P['procs2']
    pl = B.ParameterList({"x": [0, 1]})
    mode = ScoreMode.MAX if parity else ScoreMode.MIN
    GM.built = []
    GM.table = {(0, 0): s0, (1, 0): s1}
    best1, res1 = B.grid_search(GM, pl, _score, processes=1, mode=mode)
    snapshot1 = [dict(r) for r in res1]
    if pl.build() != [{"x": 0}, {"x": 1}]:
        return hx.end(hx.fail("a search changed what the parameter list builds", got=pl.build()))
    GM.built = []
    GM.table = {(0, 0): t0, (1, 0): t1}
    saved = B.Pool
    B.Pool = FakePool
    FakePool.order = [0, 0]
    try:
        best2, res2 = B.grid_search(GM, pl, _score, processes=procs2, mode=mode)
    finally:
        B.Pool = saved
    hx.reach('second_search')
    for i, (r, sc) in enumerate(zip(res2, (t0, t1))):
        if r.get("x") != i or r.get("records") != [sc] or r.get("score") != sc or len(r) != 3:
            return hx.end(hx.fail("second search on the same ParameterList", index=i, got=r))
    if [dict(r) for r in res1] != snapshot1:
        return hx.end(hx.fail("the second search rewrote the first search's reported results"))
    bi = 1 if ((parity and t1 > t0) or ((not parity) and t1 < t0)) else 0
    return hx.end(best2 is res2[bi])


def reserved_names(s0: int, s1: int) -> bool:
    """
    post: _
    """
    # every result reports its own unmodified parameters - also when a parameter happens to be called records / score
    hx.begin()
    name, mode_ = hx.P['name'], hx.P['mode']
    GM.built = []
    GM.table = {(0, 0): s0, (1, 0): s1}
    best, results = B.grid_search(GM, {"x": [0, 1], name: "mine"}, _score)
    hx.reach('ran')
    ok = True
    for i, r in enumerate(results):
        if r.get(name) != "mine":
            ok = False
    if mode_ == 'prop':
        return hx.end(ok)
    if ok:
        return hx.end(True)
    # recorded deviating behaviour (F6): the entry holds the search's own bookkeeping instead
    for i, r in enumerate(results):
        want = [[s0], [s1]][i] if name == "records" else [s0, s1][i]
        if r.get(name) != want or r.get("x") != i:
            return hx.end(hx.fail("F6: unrecorded behaviour", got=r))
    return hx.end(True)


BOUNDS = {"quick": {"combinations": "<= 4", "repetitions": "<= 3", "scores/aggregates": "all ints (ties, negative, beyond sys.maxsize)"},
          "thorough": {"combinations": "<= 4", "repetitions": "<= 3", "scores/aggregates": "all ints"}}
OUTSIDE = ["float scores (NaN, rounding)", "the arithmetic inside statistics.mean/variance (not ECAgent code; only the dispatch is decided)",
           "real worker processes and pickling (pool contract stubbed)"]
STUBS = ["ECAgent.Batching.stats replaced by a recorder returning an opaque value per call (aggregate_dispatch only)",
         "ECAgent.Batching.Pool replaced by FakePool (imap yields f(x) in input order)", "Model.logger replaced by a no-op logger"]
ASSUMPTIONS = ["the score function is a table lookup by (combination, repetition) with arbitrary int entries"]


def obligations(tier):
    enc = (B.grid_search, B._run_model_for_search, B._score_model_for_search)
    obs = [
        X("aggregate_linear", aggregate_linear, parts=[{}, {"records": [2 ** 60 + 1]}, {"records": [2 ** 60 + 1, 3, -7]}],
          labels=("min", "max", "sum"), timeout=300, encoded=(B.grid_search,)),
        X("aggregate_dispatch", aggregate_dispatch, labels=("mean", "variance", "invalid_mode"), timeout=300,
          encoded=(B._score_model_for_search,)),
        X("selection", selection, parts=[{"k": k, "procs": p} for k in ((1, 2, 3, 4) if tier == "quick" else (1, 2, 3, 4, 5, 6)) for p in (1, 2) if not (p == 2 and k == 1) and not (k == 5 and tier != "quick")] +
          [{"k": 3, "procs": 1, "values": v} for v in ("iterator", "generator")] + [{"k": 3, "procs": 1, "offsets": [0, 500, 250]}, {"k": 3, "procs": 2, "offsets": [7, 7, 8]}, {"k": 3, "procs": 1, "values": "equal_but_distinct"}, {"k": 5, "procs": 2, "values": "equal_but_distinct"}] + [{"k": 5, "procs": 3}, {"k": 5, "procs": 2}],
          labels=("best_last", "best_first"), labels_for=lambda p: ("best_last", "best_first") if p["k"] > 1 else ("best_first",),
          timeout=600, encoded=enc, bounds={"combinations": "1..4 (quick) / 1..6 (thorough)", "aggregates": "all ints"}),
        X("nested_search", nested_search, parts=[{"procs": 1}, {"procs": 2}], labels=("searched",), timeout=600, encoded=enc,
          bounds={"outer combinations": 3, "repetitions": 2, "inner search": "2 combinations, from inside the outer score function"}),
        X("step_limit", step_limit, parts=[{"procs": 1}, {"procs": 2}, {"procs": 3}], labels=("searched",), timeout=300, encoded=enc,
          bounds={"step limit": "0..4", "combinations": 3}),
        X("reuse", reuse, parts=[{"procs2": 1}, {"procs2": 2}], labels=("second_search",), timeout=600, encoded=enc + (B.ParameterList.build,)),
        X("repetitions", repetitions, parts=[{"reps": r, "procs": p} for r in (1, 2, 3) for p in (1, 2) if not (p == 2 and r == 1)],
          labels=("second_best", "first_best"), timeout=900, encoded=enc),
    ]
    for nm in ("records", "score"):
        obs.append(X("reserved_%s.prop" % nm, reserved_names, parts=[{"name": nm, "mode": "prop"}], labels=("ran",), timeout=300,
                     encoded=enc, role="finding_prop", finding="F6"))
        obs.append(X("reserved_%s.recorded" % nm, reserved_names, parts=[{"name": nm, "mode": "recorded"}], labels=("ran",),
                     timeout=300, encoded=enc, role="finding_recorded", finding="F6"))
    obs.append(X("other_names", reserved_names, parts=[{"name": nm, "mode": "prop"} for nm in ("record", "scores", "y", "Score")],
                 labels=("ran",), timeout=300, encoded=enc))
    return obs
