"""C15 - a batch runs every combination x repetition once; no result lost or mixed (engine X, pool contract stubbed).

What is decided: batch_run is correct for EVERY completion order a pool honouring the documented imap_unordered contract
can produce (the order is symbolic) - not that CPython's multiprocessing honours its contract (trusted).
"""
import vf.hx as hx
from vf.spec import X
from vf.stubs import FakePool, NULL_LOGGER
import ECAgent.Batching as B
from ECAgent.Core import Model, System
from ECAgent.Collectors import Collector


class Boom(Exception):
    pass


class RecC(Collector):
    def collect(self):
        self.records.append((self.model.a, self.model.b, self.model.systems.timestep))


class RecD(Collector):
    def collect(self):
        self.records.append(("d", self.model.a, self.model.systems.timestep))


class Stop(System):
    def execute(self):
        if self.model.systems.timestep >= self.model.stop:
            self.model.complete()


class BM(Model):
    __slots__ = ['a', 'b', 'stop', 'timestep']        # `timestep` here is the user's own attribute (a step length)
    built = []
    inner = []
    bad = None
    bad_kind = "Boom"
    own_timestep = None

    def __init__(self, a, b, stop):
        super().__init__(logger=NULL_LOGGER)
        self.a, self.b, self.stop = a, b, stop
        if BM.own_timestep is not None:
            self.timestep = BM.own_timestep
        BM.built.append(self)
        if BM.bad is not None and len(BM.built) - 1 == BM.bad:
            if BM.bad_kind == "StopIteration":
                next(iter([]))             # e.g. user code calling next() on an exhausted iterator
            raise Boom("run %d fails" % BM.bad)
        self.systems.add_system(RecC("c", self))
        self.systems.add_system(RecD("d", self))
        self.systems.add_system(Stop("s", self, priority=5))


class BMOwnExecute(BM):
    """a model that drives its own termination from an override of the public execute(): it completes once its fuel
    (one step) is used up"""
    __slots__ = []

    def execute(self, n=1):
        super().execute(n)
        if self.systems.timestep >= 1:
            self.complete()


class Probe(Model):
    """the inner model of a look-ahead sub-simulation"""
    __slots__ = ['k']

    def __init__(self, k):
        super().__init__(logger=NULL_LOGGER)
        self.k = k
        self.systems.add_system(RecK("rk", self))


class RecK(Collector):
    def collect(self):
        self.records.append(("probe", self.model.k, self.model.systems.timestep))


class LookAhead(System):
    """at timestep 0 runs a small batch of its own (a look-ahead): the runner is re-entered from inside an execution"""

    def execute(self):
        if self.model.systems.timestep == 0:
            inner = B.batch_run(Probe, {"k": [7, 8]}, collectors="rk", processes=1, max_timesteps=1)
            BM.inner.append(inner)


class BMNested(BM):
    __slots__ = []

    def __init__(self, a, b, stop):
        super().__init__(a, b, stop)
        self.systems.add_system(LookAhead("look", self, priority=3))


class Swap(System):
    """after burn-in (timestep 0) replaces collector "c" by a fresh collector registered under the same id"""

    def execute(self):
        if self.model.systems.timestep == 0:
            self.model.systems.remove_system("c")
            self.model.systems.add_system(RecC("c", self.model))


class BMSwap(BM):
    __slots__ = []

    def __init__(self, a, b, stop):
        super().__init__(a, b, stop)
        self.systems.add_system(Swap("swap", self, priority=-5))      # runs after the collectors


def _expected_runs(na, nb, reps):
    return [(a, b) for _ in range(reps) for a in range(na) for b in range(nb)]


def _records(a, b, steps, which):
    if which == "c":
        return [(a, b, t) for t in range(steps)]
    return [("d", a, t) for t in range(steps)]


def serial(na: int, nb: int, reps: int, mx: int, stop: int) -> bool:
    """
    pre: 0 <= na <= 2 and 0 <= nb <= 2 and 0 <= reps <= hx.P['R']
    pre: 0 <= mx <= hx.P['T'] and 0 <= stop <= hx.P['T']
    post: _
    """
    hx.begin()
    sel = hx.P['collectors']
    BM.built, BM.bad = [], None
    avals = list(range(na))
    if hx.P.get('repeated'):               # a grid axis may list the same value twice: still one execution per listed value
        avals = [0] * na
    BM.own_timestep = 0 if hx.P.get('own_timestep') else None
    params = {"a": (iter(list(avals)) if hx.P.get('oneshot') else avals), "b": list(range(nb)), "stop": stop}
    sib = hx.P.get('sibling')
    if sib:
        # the caller's dict also served to build ANOTHER parameter list, which was edited afterwards (a sweep variant):
        # the grid that is run is still the one that was given
        variant = B.ParameterList(params)
        handed = B.ParameterList(params) if sib == 'plist' else params
        variant.add_parameter("junk", [1, 2, 3])
        variant.remove_parameter("b")
        params = handed
    if hx.P.get('edited_list'):
        # a parameter list that was built, then edited (a parameter dropped again), then run: the grid run is the list's
        # CURRENT declaration
        pl = B.ParameterList(params)
        pl.add_parameter("junk", [1, 2])
        pl.build()
        pl.remove_parameter("junk")
        params = pl
    variant = hx.P.get('model', 'plain')
    cls = BMOwnExecute if variant == 'own_execute' else BMSwap if variant == 'swap_collector' else BMNested if variant == 'nested' else BM
    BM.inner = []
    if hx.P.get('positional'):
        # the documented parameter order, passed positionally: (model_cls, parameters, collectors, processes, max_timesteps, repetitions)
        res = B.batch_run(cls, params, sel, 1, mx, reps)
    else:
        res = B.batch_run(cls, params, collectors=sel, processes=1, max_timesteps=mx, repetitions=reps)
    for inner in BM.inner:
        if inner != [[("probe", 7, 0)], [("probe", 8, 0)]]:
            return hx.end(hx.fail("result of a batch run from inside an execution", got=inner))
    runs = [(a, b) for _ in range(reps) for a in avals for b in range(nb)]
    steps = stop if stop < mx else mx        # at timestep `stop` the stopper (priority 5) completes before collectors run
    if variant == 'own_execute' and steps > 1:
        steps = 1                            # the model's own execute() completes it after its first step
    if len(runs) >= 3:
        hx.reach('three_runs')
    if stop < mx:
        hx.reach('completes_before_limit')
    if mx < stop:
        hx.reach('limit_before_completion')
    # a fresh model per execution, in product order, none past the limit or its own completion
    if [(m.a, m.b) for m in BM.built] != runs:
        return hx.end(hx.fail("models built", got=[(m.a, m.b) for m in BM.built], exp=runs))
    for i in range(len(BM.built)):
        m = BM.built[i]
        if m.systems.timestep > mx or m.systems.timestep > stop + 1:
            return hx.end(hx.fail("an execution advanced past the step limit or its completion", t=m.systems.timestep))
        for j in range(i + 1, len(BM.built)):
            if BM.built[j] is m:
                return hx.end(hx.fail("model reused"))
    if sel is None:
        return hx.end(res == [])
    if sel == "c" and variant == 'swap_collector':
        # the result is what the collector registered as "c" AT THE END of the run holds: the steps after burn-in
        exp = [[(a, b, t) for t in range(1, steps)] if steps >= 1 else [] for a, b in runs]
    elif sel == "c":
        exp = [_records(a, b, steps, "c") for a, b in runs]
    else:
        exp = [{"c": _records(a, b, steps, "c"), "d": _records(a, b, steps, "d")} for a, b in runs]
    if res != exp:
        return hx.end(hx.fail("batch results (one process: product order)", got=res, exp=exp))
    for i in range(len(res)):
        for j in range(i + 1, len(res)):
            if res[i] is res[j]:
                return hx.end(hx.fail("two executions share a result object"))
    return hx.end(True)


def parallel_any_order(o0: int, o1: int, o2: int, o3: int, o4: int, o5: int, mx: int, stop: int) -> bool:
    """
    pre: o0 >= 0 and o1 >= 0 and o2 >= 0 and o3 >= 0 and o4 >= 0 and o5 >= 0
    pre: 0 <= mx <= 2 and 0 <= stop <= 2
    pre: not hx.P.get('big') or (o1 == 0 and o2 == 0 and o3 == 0 and o4 == 0 and o5 == 0 and mx >= 1)
    post: _
    """
    # ('big' partitions: batches well beyond 4 x workers runs - the size at which pool-based code starts to chunk or group its
    # work (multiprocessing's own map() heuristic is len / (4 * workers)); only the first completion choice stays symbolic there)
    hx.begin()
    na, nb, reps, procs = hx.P['na'], hx.P['nb'], hx.P['reps'], hx.P['procs']
    BM.built, BM.bad = [], None
    FakePool.order = [o0, o1, o2, o3, o4, o5]
    FakePool.created = []
    saved = B.Pool
    B.Pool = FakePool
    try:
        res = B.batch_run(BM, {"a": list(range(na)), "b": list(range(nb)), "stop": stop}, collectors="c",
                          processes=procs, max_timesteps=mx, repetitions=reps)
    finally:
        B.Pool = saved
    runs = _expected_runs(na, nb, reps)
    steps = stop if stop < mx else mx
    # the completion order the pool chose (same Lehmer decoding as FakePool)
    idx = list(range(len(runs)))
    order = []
    k = 0
    while idx:
        o = (FakePool.order[k] if k < len(FakePool.order) else 0) % len(idx)     # (FakePool: choices beyond the list are 0)
        k += 1
        for c in range(len(idx)):
            if o == c:
                order.append(idx.pop(c))
                break
    if order != list(range(len(runs))):
        hx.reach('permuted')
    exp = [_records(runs[i][0], runs[i][1], steps, "c") for i in order]
    if FakePool.created != [procs]:
        return hx.end(hx.fail("pool not created with the requested process count", got=FakePool.created))
    if len(res) != len(runs):
        return hx.end(hx.fail("a result was lost or duplicated", got=len(res), exp=len(runs)))
    # with several processes the order of the results is left open by the property: compare as multisets
    if sorted(res) != sorted(exp):
        return hx.end(hx.fail("results lost, duplicated or mixed up", got=res, exp=exp))
    for i in range(len(res)):
        for j in range(i + 1, len(res)):
            if res[i] is res[j]:
                return hx.end(hx.fail("two executions share a result object"))
    return hx.end(True)


def error_propagates(pos: int, o0: int, o1: int, o2: int, o3: int) -> bool:
    """
    pre: 0 <= pos < 4
    pre: o0 >= 0 and o1 >= 0 and o2 >= 0 and o3 >= 0
    post: _
    """
    hx.begin()
    procs, kind, mode = hx.P['procs'], hx.P.get('exc', 'Boom'), hx.P.get('mode', 'prop')
    BM.built, BM.bad, BM.bad_kind = [], pos, kind
    FakePool.order = [o0, o1, o2, o3]
    saved = B.Pool
    B.Pool = FakePool
    try:
        try:
            res = B.batch_run(BM, {"a": [0, 1], "b": [0, 1], "stop": 1}, collectors="c", processes=procs, max_timesteps=2)
        except (Boom, StopIteration, RuntimeError) as e:
            hx.reach('propagated')
            return hx.end(True)           # the error reached the caller (its type may be wrapped, PEP 479 style)
        hx.reach('returned')
        if mode == 'prop':
            return hx.end(hx.fail("an error raised by execution %d was dropped" % pos, error=kind, processes=procs))
        # recorded deviating behaviour (F7): the call returns normally; what it returns are results of OTHER executions,
        # each at most once
        allowed = [[(a, b, 0)] for a in (0, 1) for b in (0, 1)]
        for r in res:
            if r not in allowed:
                return hx.end(hx.fail("F7: unrecorded behaviour", got=res))
            allowed.remove(r)
        return hx.end(len(res) < 4)
    finally:
        B.Pool = saved
        BM.bad, BM.bad_kind = None, "Boom"


_BADCOL = [5, 2.5, True, object]


def collectors_validation(which: int) -> bool:
    """
    pre: 0 <= which < len(_BADCOL)
    post: _
    """
    hx.begin()
    BM.built, BM.bad = [], None
    try:
        B.batch_run(BM, {"a": [0], "b": [0], "stop": 1}, collectors=hx.pick(_BADCOL, which), max_timesteps=2)
        return hx.end(hx.fail("non-iterable collectors accepted"))
    except AttributeError:
        hx.reach('rejected')
    return hx.end(BM.built == [])


BOUNDS = {"quick": {"runs per batch": "<= 4 (pool), <= 8 (serial: 2x2 grid x 2 repetitions)", "step limit / completion time": "0..3",
                    "completion order": "every permutation (symbolic)"},
          "thorough": {"runs per batch": "<= 6 (pool), <= 12 (serial)", "step limit / completion time": "0..4"}}
OUTSIDE = ["real process scheduling, pickling of models/results, OS-level faults (the pool contract is stubbed and trusted)",
           "more than 6 runs per pooled batch", "a ParameterList passed instead of a dict is covered by C14 + the type test in batch_run"]
STUBS = ["ECAgent.Batching.Pool replaced by FakePool: imap_unordered yields f(x) for the inputs in a symbolic completion order; "
         "an exception raised by f reaches the consumer at that position", "Model.logger replaced by a no-op logger"]
ASSUMPTIONS = ["every run's records are self-identifying: (a, b, timestep)"]


def obligations(tier):
    enc = (B.batch_run, B._run_model_for_batch, B._build_model_from_kwargs)
    R, T = (2, 3) if tier == "quick" else (3, 4)
    shapes = [(1, 1, 1), (2, 1, 1), (1, 2, 2), (2, 2, 1)] if tier == "quick" else [(1, 1, 1), (2, 1, 1), (1, 2, 2), (2, 2, 1), (2, 1, 3), (1, 1, 5)]
    return [
        X("serial", serial, parts=[{"collectors": c, "R": R, "T": T} for c in ("c", ["c", "d"], None)] +
          [{"collectors": "c", "R": 1, "T": 2, "repeated": True}, {"collectors": "c", "R": 2, "T": 1, "oneshot": True},
           {"collectors": "c", "R": 1, "T": 2, "own_timestep": True},
           {"collectors": "c", "R": 1, "T": 1, "sibling": "dict"}, {"collectors": "c", "R": 1, "T": 1, "sibling": "plist"},
           {"collectors": "c", "R": 1, "T": 1, "edited_list": True},
           {"collectors": "c", "R": 1, "T": 3, "model": "own_execute"}, {"collectors": "c", "R": 1, "T": 3, "model": "swap_collector"},
           {"collectors": "c", "R": 1, "T": 2, "model": "nested"}, {"collectors": ["c", "d"], "R": 2, "T": 2, "positional": True}],
          labels=("three_runs", "completes_before_limit", "limit_before_completion"), timeout=1200, encoded=enc),
        X("parallel_any_order", parallel_any_order,
          parts=[{"na": a, "nb": b, "reps": r, "procs": p} for (a, b, r) in shapes for p in (2,)] + [{"na": 2, "nb": 1, "reps": 1, "procs": 16}] +
          [{"na": 17, "nb": 1, "reps": 1, "procs": 2, "big": True}, {"na": 5, "nb": 5, "reps": 1, "procs": 3, "big": True}],
          labels=("permuted",), labels_for=lambda p: ("permuted",) if p["na"] * p["nb"] * p["reps"] > 1 else (), timeout=1200, encoded=enc),
        X("error_propagates", error_propagates, parts=[{"procs": 1}, {"procs": 2}, {"procs": 1, "exc": "StopIteration"}, {"procs": 2, "exc": "StopIteration"}],
          labels=("propagated",), timeout=600, encoded=enc),
        X("collectors_validation", collectors_validation, labels=("rejected",), timeout=120, encoded=(B.batch_run,)),
    ]
