"""C14 - a parameter list builds the exact Cartesian product, once each (engine X)."""
import numpy as np
import vf.hx as hx
from vf.spec import X
import ECAgent.Batching as B
from ECAgent.Batching import ParameterList

NAMES = ["alpha", "beta", "gamma"]
_ARR = {n: np.arange(n) * 10 + 7 for n in range(4)}      # numpy arrays are built concretely (C boundary)


_ELEM_ARRS = [np.array([8]), np.array([8, 4]), np.array([])]
_ELEM_LISTS = [[0, 10], [0, 100], []]
_ZERO_D = np.asarray(0.5)


def _same_value(a, b):
    """identical, or equal values of the very same type (a one-element array is not the number it contains)"""
    if a is b:
        return True
    if type(a) is not type(b) or isinstance(a, np.ndarray):
        return False
    return a == b


def _mk(kind, n, vals):
    """(declared value, list of the single values it stands for).  kinds: 0 int scalar, 1 None, 2 str (one value,
    whatever its length), 3 list, 4 tuple, 5 range, 6 numpy array, 7 list of numpy arrays, 8 list of lists, 9 0-d numpy array"""
    if kind == 0:
        return vals[0], [vals[0]]
    if kind == 1:
        return None, [None]
    if kind == 2:
        s = "" if n == 0 else "a" if n == 1 else "ab" if n == 2 else "abc"
        return s, [s]
    if kind == 3:
        lst = [vals[i] for i in range(n)]
        return lst, list(lst)
    if kind == 4:
        lst = [vals[i] for i in range(n)]
        return tuple(lst), list(lst)
    if kind == 5:
        return range(n), list(range(n))
    if kind == 9:               # a 0-dimensional numpy array (np.asarray(0.5)): not iterable, hence ONE value - the object itself
        return _ZERO_D, [_ZERO_D]
    if kind == 8:               # a list whose single values are themselves (unhashable) lists, e.g. bounds = [[0, 10], [0, 100]]
        lst = [_ELEM_LISTS[i] for i in range(n)]
        return lst, list(lst)
    if kind == 7:               # a list whose single values are themselves numpy arrays (of 1, 2, 0 elements)
        lst = [_ELEM_ARRS[i] for i in range(n)]
        return lst, list(lst)
    arr = _ARR[0] if n == 0 else _ARR[1] if n == 1 else _ARR[2] if n == 2 else _ARR[3]
    return arr, [x for x in arr]


def product(k0: int, n0: int, k1: int, n1: int, k2: int, n2: int, v0: int, v1: int, v2: int, v3: int, v4: int,
            v5: int, v6: int, v7: int, v8: int) -> bool:
    """
    pre: 0 <= k0 < 10 and 0 <= k1 < 10 and 0 <= k2 < 10
    pre: 0 <= n0 <= hx.P['L'] and 0 <= n1 <= hx.P['L'] and 0 <= n2 <= hx.P['L']
    post: _
    """
    hx.begin()
    p, route = hx.P['p'], hx.P['route']
    if 'k0' in hx.P:
        k0 = hx.P['k0']            # the first parameter's kind chosen by the partition (splits the work across cores)
    decl = []
    specs = [(k0, n0, [v0, v1, v2]), (k1, n1, [v3, v4, v5]), (k2, n2, [v6, v7, v8])][:p]
    for i, (k, n, vals) in enumerate(specs):
        decl.append((NAMES[i],) + _mk(k, n, vals))
    if route == 'ctor':
        pl = ParameterList({name: val for name, val, _ in decl})
    else:
        bystander = ParameterList()          # a second list, also declared incrementally, alive at the same time
        pl = ParameterList()
        for name, val, _ in decl:
            pl.add_parameter(name, val)
        if bystander.build() != [{}]:
            return hx.end(hx.fail("a parameter list received declarations made on another list", got=bystander.build()))
        bystander.add_parameter(NAMES[0], 1)     # the same name on the other list is not a duplicate
    before = list(pl._parameters.items())
    got = pl.build()
    # nested-loop oracle: first-declared parameter varies slowest
    exp = [{}]
    for name, _, singles in decl:
        exp = [dict(d, **{name: s}) for d in exp for s in singles]
    if len(exp) == 0:
        hx.reach('empty_product')
    if len(exp) >= 4:
        hx.reach('four_or_more')
    if p == 0:
        hx.reach('no_parameters')
    if len(got) != len(exp):
        return hx.end(hx.fail("number of combinations", got=len(got), exp=len(exp), decl=[(n, v) for n, v, _ in decl]))
    for g, e in zip(got, exp):
        if list(g.keys()) != [name for name, _, _ in decl]:
            return hx.end(hx.fail("a combination lacks a parameter name or has them out of order", got=list(g.keys())))
        for name in e:
            a, b = g[name], e[name]
            if not _same_value(a, b):
                return hx.end(hx.fail("combination value / order", name=name, got=g, exp=e))
    # repeatable; independent dictionaries; the declaration is never changed
    again = pl.build()
    if len(again) != len(got):
        return hx.end(hx.fail("second build differs in length"))
    for g, h in zip(got, again):
        if g is h:
            return hx.end(hx.fail("two builds share a dictionary"))
        if list(g.keys()) != list(h.keys()) or not all(_same_value(x, y) for x, y in zip(g.values(), h.values())):
            return hx.end(hx.fail("second build differs"))
    for i in range(len(got)):
        for j in range(i + 1, len(got)):
            if got[i] is got[j]:
                return hx.end(hx.fail("one build returns the same dictionary twice"))
    if len(got) > 0:
        got[0]["__poison__"] = 1
        if p > 0:
            got[0][NAMES[0]] = "changed"
        third = pl.build()
        if len(third) != len(exp) or "__poison__" in third[0]:
            return hx.end(hx.fail("mutating a returned dictionary changed a later build"))
        if p > 0 and not _same_value(third[0][NAMES[0]], exp[0][NAMES[0]]):
            return hx.end(hx.fail("mutating a returned dictionary changed a later build"))
    now = list(pl._parameters.items())
    if len(now) != len(before) or not all(a[0] == b[0] and a[1] is b[1] for a, b in zip(now, before)):
        return hx.end(hx.fail("build() changed the declaration"))
    return hx.end(True)


_BADKEYS = [1, None, 2.5, ("a",), b"alpha"]


def declaration_step(nstate: int, op: int, which: int, badkey: int, v: int) -> bool:
    """
    pre: 0 <= nstate <= 3 and 0 <= op < 6 and 0 <= which < 3 and 0 <= badkey < len(_BADKEYS)
    post: _
    """
    hx.begin()
    vals = [[1, 2], None, "s"]           # (a parameter whose single value is None is a declared parameter too)
    shared = {NAMES[i]: vals[i] for i in range(nstate)}
    shared_copy = dict(shared)
    sibling = ParameterList(shared)       # another list declared from the SAME dict object (a shared base configuration)
    pl = ParameterList(shared)
    sibling_build = sibling.build()
    snap = list(pl._parameters.items())
    snap_build = pl.build()
    name = hx.pick(NAMES, which)
    present = which < nstate
    exp_items = None
    raised = None
    try:
        if op == 0:            # add a fresh or duplicate name
            pl.add_parameter(name, v)
            exp_items = snap + [(name, v)]
        elif op == 1:          # add a non-str name
            pl.add_parameter(hx.pick(_BADKEYS, badkey), v)
        elif op == 2:          # remove
            pl.remove_parameter(name)
            exp_items = [kv for kv in snap if kv[0] != name]
        elif op == 3:          # remove a name that was never declared
            pl.remove_parameter("never")
        elif op == 4:          # constructor with a non-str key among valid ones
            ParameterList({"ok": 1, hx.pick(_BADKEYS, badkey): 2})
        else:                  # remove then re-add with another value: the new value is used, declared last
            if not present:
                return hx.end(True)
            pl.remove_parameter(name)
            pl.add_parameter(name, [v, v])
            exp_items = [kv for kv in snap if kv[0] != name] + [(name, [v, v])]
    except KeyError:
        raised = 'KeyError'
    except AttributeError:
        raised = 'AttributeError'
    want = None
    if op == 0 and present:
        want = 'KeyError'
    elif op in (1, 4):
        want = 'AttributeError'
    elif op == 2 and not present:
        want = 'KeyError'
    elif op == 3:
        want = 'KeyError'
    if want is not None:
        hx.reach('rejected')
        if raised != want:
            return hx.end(hx.fail("invalid declaration: documented error not raised", op=op, raised=raised, want=want))
        now = list(pl._parameters.items())
        if len(now) != len(snap) or not all(a[0] == b[0] and a[1] is b[1] for a, b in zip(now, snap)):
            return hx.end(hx.fail("rejected declaration changed the parameter list", op=op))
        if pl.build() != snap_build:
            return hx.end(hx.fail("rejected declaration changed what build() returns", op=op))
        return hx.end(True)
    hx.reach('applied')
    if raised is not None:
        return hx.end(hx.fail("valid declaration rejected", op=op, raised=raised))
    if list(shared.items()) != list(shared_copy.items()) or sibling.build() != sibling_build:
        return hx.end(hx.fail("a declaration update on one list changed the caller's dict or a sibling list", op=op))
    now = list(pl._parameters.items())
    if len(now) != len(exp_items):
        return hx.end(hx.fail("declaration after update", got=[k for k, _ in now], exp=[k for k, _ in exp_items]))
    for (k1, v1_), (k2, v2_) in zip(now, exp_items):
        if k1 != k2 or not (v1_ is v2_ or v1_ == v2_):
            return hx.end(hx.fail("declaration after update", got=[k for k, _ in now], exp=[k for k, _ in exp_items]))
    # and build() follows the updated declaration (stale caches!)
    exp = [{}]
    for nm, val in exp_items:
        singles = [val] if (val is None or type(val) is str or type(val) is int) else list(val)
        exp = [dict(d, **{nm: s}) for d in exp for s in singles]
    got = pl.build()
    if len(got) != len(exp):
        return hx.end(hx.fail("build() after a declaration update", got=got, exp=exp))
    for g, e in zip(got, exp):
        if list(g.keys()) != list(e.keys()) or not all(g[k] is e[k] or g[k] == e[k] for k in e):
            return hx.end(hx.fail("build() after a declaration update", got=got, exp=exp))
    return hx.end(True)


BOUNDS = {"quick": {"parameters": "0..2 (3 with length <= 1)", "values per parameter": "0..2", "kinds": "int, None, str, list, tuple, range, ndarray, list of ndarrays, list of lists"},
          "thorough": {"parameters": "0..3", "values per parameter": "0..3", "kinds": "int, None, str, list, tuple, range, ndarray"}}
OUTSIDE = ["one-shot iterators/generators as values (the property speaks of re-iterable collections)", "more than 3 parameters / 3 values",
           "numpy array elements are concrete (C boundary); list/tuple/scalar elements are opaque symbolic ints"]
STUBS = []
ASSUMPTIONS = ["itertools.product runs natively on the (solver-chosen) shapes"]


def obligations(tier):
    enc = (ParameterList.__init__, ParameterList.add_parameter, ParameterList.remove_parameter, ParameterList.build)
    if tier == "quick":
        parts = [{"p": 0, "L": 0, "route": "ctor"}, {"p": 1, "L": 3, "route": "ctor"}, {"p": 2, "L": 2, "route": "incr"},
                 {"p": 2, "L": 2, "route": "ctor"}] + [{"p": 3, "L": 1, "route": "incr", "k0": k} for k in range(10)]
    else:
        parts = [{"p": p, "L": L, "route": r} for r in ("ctor", "incr") for p, L in ((0, 0), (1, 3), (2, 3))]
        parts += [{"p": 3, "L": 2, "route": r, "k0": k} for r in ("ctor", "incr") for k in range(10)]

    def lab(pt):
        if pt["p"] == 0:
            return ("no_parameters",)
        if pt["p"] == 1:
            return ("empty_product",)
        return ("empty_product", "four_or_more") if pt["L"] >= 2 else ("empty_product",)
    return [
        X("product", product, parts=parts, labels=("empty_product", "four_or_more", "no_parameters"), labels_for=lab,
          timeout=1200, encoded=enc),
        X("declaration_step", declaration_step, labels=("rejected", "applied"), timeout=600, encoded=enc),
    ]
