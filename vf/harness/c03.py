"""C03 - component listings mirror exactly the components of agents in the model (engine X).

Invariant I3: for every component type T, the pool of T is absent when no resident has T, otherwise it is exactly
[a.components[T] for a in residents in join order if T in a.components] (identity, each once).
PositionComponent (managed by spatial worlds) is not part of the claim.

Known findings (classes, see known_findings.json): F1 attach on a resident without register; F2 detach on a resident
without deregister; F3 remove_agent of an agent whose component set changed while resident / explicit register
listing out of join order.
"""
import vf.hx as hx
from vf.spec import X
from ECAgent.Core import Model, Agent, Component, Environment, SystemManager
import ECAgent.Environments as Env


class T0(Component):
    pass


class T1(Component):
    pass


class T2(Component):
    """a container-like component that is currently empty (len() == 0, so it is falsy): still a component"""

    def __len__(self):
        return 0


TYPES = [T1, T2]


def _mk_agent(m, name, has1, has2, order21):
    a = Agent(name, m)
    if has1 and has2 and order21:
        a.add_component(T2(a, m))
        a.add_component(T1(a, m))
    else:
        if has1:
            a.add_component(T1(a, m))
        if has2:
            a.add_component(T2(a, m))
    return a


def _i3_pools(residents):
    pools = {}
    for a in residents:
        for T in a.components:
            if T is Env.PositionComponent:
                continue
            pools.setdefault(T, []).append(a.components[T])
    return pools


def _install(m, env, residents):
    """Write an I3 state directly (not through the API)."""
    for a in residents:
        env.agents[a.id] = a
    # (filled in place: the mapping object itself is whatever the scheduler's constructor created)
    m.systems.component_pools.clear()
    for T, lst in _i3_pools(residents).items():
        m.systems.component_pools[T] = lst


def _check_i3(m, residents, what="listing"):
    """All three access paths agree with I3."""
    exp = _i3_pools(residents)
    for T in (T0, T1, T2):
        e = exp.get(T)
        got1 = m.systems[T]
        got2 = m.systems.get_components(T)
        if e is None:
            if got1 is not None or got2 is not None:
                return hx.fail(what + ": components listed although no resident has one", type=T.__name__,
                               got=[c.agent.id for c in (got1 or got2)])
            try:
                m.systems[T, True]
                return hx.fail(what + ": strict lookup did not raise for an empty type", type=T.__name__)
            except KeyError:
                pass
        else:
            if got1 is None or got2 is None:
                return hx.fail(what + ": components of residents not listed", type=T.__name__,
                               exp=[c.agent.id for c in e])
            if not hx.same_seq(got1, e) or not hx.same_seq(got2, e) or not hx.same_seq(m.systems[T, True], e):
                return hx.fail(what + ": listing differs from residents' components", type=T.__name__,
                               got=[c.agent.id for c in got1], exp=[c.agent.id for c in e])
    # no other type may be listed (PositionComponent aside)
    for T in m.systems.component_pools:
        if T not in (T0, T1, T2, Env.PositionComponent):
            return hx.fail(what + ": unexpected pool", type=repr(T))
    return True


def _world(m, kind):
    if kind == 'plain':
        return m.environment
    if kind == 'space':
        w = Env.SpaceWorld(m, 5, 4, 3)
    elif kind == 'space_wrap':
        w = Env.SpaceWorld(m, 5, 0, 0, wrap_env=True)
    else:
        w = _REAL[kind]
        w.agents.clear()
        w.components.clear()
        w.set_model(m)
    m.environment = w
    return w


_REAL = {}


def _real_worlds():
    # real grid worlds are built once, concretely (pandas stays outside the symbolic run)
    if not _REAL:
        _REAL['grid'] = Env.GridWorld(Model(), 3, 2)
        _REAL['line'] = Env.LineWorld(Model(), 4)
        _REAL['discrete'] = Env.DiscreteWorld(Model(), 2, 2, 2)


_real_worlds()


def join_leave_step(a1: bool, a2: bool, ao: bool, b1: bool, b2: bool, bo: bool, c1: bool, c2: bool, co: bool,
                    n1: bool, n2: bool, no: bool, j: int) -> bool:
    """
    pre: 0 <= j < max(hx.P['r'], 1)
    post: _
    """
    hx.begin()
    r, op, kind = hx.P['r'], hx.P['op'], hx.P['world']
    m = Model()
    env = _world(m, kind)
    flags = [(a1, a2, ao), (b1, b2, bo), (c1, c2, co)][:r]
    residents = [_mk_agent(m, "r%d" % i, *f) for i, f in enumerate(flags)]
    if kind != 'plain':
        for a in residents:
            a.add_component(Env.PositionComponent(a, m, 0, 0, 0))
    _install(m, env, residents)
    if hx.P.get('completed'):
        m.complete()                 # a finished model still mirrors joins and leaves (post-run bookkeeping)
    if op == 'join':
        new = _mk_agent(m, "new", n1, n2, no)
        env.add_agent(new)
        residents = residents + [new]
        if n1 or n2:
            hx.reach('join_with_components')
    else:
        leaver = hx.pick(residents, j)
        if len(leaver.components) > (1 if kind != 'plain' else 0):
            hx.reach('leave_with_components')
        env.remove_agent(leaver.id)
        residents = [a for a in residents if a is not leaver]
        if kind != 'plain' and Env.PositionComponent in leaver:
            return hx.end(hx.fail("leaver keeps its position component"))
    if not hx.same_seq(list(env.agents.values()), residents):
        return hx.end(hx.fail("residents", got=list(env.agents), exp=[a.id for a in residents]))
    return hx.end(_check_i3(m, residents) is True)


def rejected_join(a1: bool, n1: bool, n2: bool, dup: bool, x: int, y: int, z: int) -> bool:
    """
    post: _
    """
    # a join that is rejected (identifier taken / position outside a spatial world) must leave the listings at I3
    hx.begin()
    kind = hx.P['world']
    m = Model()
    env = _world(m, kind)
    residents = [_mk_agent(m, "r0", a1, False, False), _mk_agent(m, "r1", True, True, False)]
    if kind != 'plain':
        for a in residents:
            a.add_component(Env.PositionComponent(a, m, 0, 0, 0))
    _install(m, env, residents)
    new = _mk_agent(m, "r1" if dup else "new", n1, n2, False)
    try:
        if kind == 'plain':
            env.add_agent(new)
        else:
            env.add_agent(new, x, y, z)
        joined = True
    except Exception:
        joined = False
    if joined:
        if new.id not in env.agents or env.agents[new.id] is not new:
            return hx.end(hx.fail("join reported success but the agent is not resident"))
        # whoever is in the environment NOW is resident (a displaced namesake is not): the listings must mirror exactly them
        residents = list(env.agents.values())
    else:
        hx.reach('rejected')
        if not hx.same_seq(list(env.agents.values()), residents):
            return hx.end(hx.fail("rejected join changed the residents", got=list(env.agents)))
    return hx.end(_check_i3(m, residents, "after a %s join" % ("successful" if joined else "rejected")) is True)


def install_populated(a1: bool, a2: bool, b1: bool, b2: bool, use_setter: bool) -> bool:
    """
    post: _
    """
    # a world that is populated BEFORE it becomes the model's environment (its agents joined through the API while
    # world.model was already the model), then installed with set_environment() or by assignment
    hx.begin()
    kind = hx.P['world']
    m = Model()
    if kind == 'plain':
        w = Environment(m, id="W")
    elif kind == 'space':
        w = Env.SpaceWorld(m, 5, 4, 3)
    elif kind == 'space_wrap':
        w = Env.SpaceWorld(m, 5, 0, 0, wrap_env=True)
    else:
        w = _REAL[kind]
        w.agents.clear()
        w.components.clear()
        w.set_model(m)
    residents = [_mk_agent(m, "r0", a1, a2, False), _mk_agent(m, "r1", b1, b2, True)]
    for a in residents:
        w.add_agent(a)
    if use_setter:
        m.set_environment(w)
    else:
        m.environment = w
    if a1 or a2 or b1 or b2:
        hx.reach('populated')
    if not hx.same_seq(list(m.environment.agents.values()), residents):
        return hx.end(hx.fail("residents after installing the world"))
    if _check_i3(m, residents, "after installing a populated world") is not True:
        return hx.end(False)
    late = _mk_agent(m, "late", True, False, False)
    m.environment.add_agent(late)
    return hx.end(_check_i3(m, residents + [late], "after a join in the installed world") is True)


def refused_deregister(a1: bool, a2: bool, ti: int, owner: int) -> bool:
    """
    pre: 0 <= ti < 2 and 0 <= owner < 2
    post: _
    """
    # the scheduler's explicit deregister call for a component that is not registered is refused and changes nothing:
    # a type nobody has is still reported as having none
    hx.begin()
    m = Model()
    env = m.environment
    res = _mk_agent(m, "r0", a1, a2, False)
    env.add_agent(res)
    outsider = _mk_agent(m, "out", True, True, False)        # never joined: its components are not registered
    T = hx.pick(TYPES, ti)
    comp = outsider.components[T] if owner == 0 else T(res, m)
    try:
        m.systems.deregister_component(comp)
        return hx.end(hx.fail("deregistering an unregistered component was accepted"))
    except KeyError:
        hx.reach('refused')
    if _check_i3(m, [res], "after a refused explicit deregister") is not True:
        return hx.end(False)
    # after the last owner of a type left, a refused deregister must not resurrect an empty listing either
    env.remove_agent("r0")
    try:
        m.systems.deregister_component(comp)
        return hx.end(hx.fail("deregistering an unregistered component was accepted"))
    except KeyError:
        pass
    return hx.end(_check_i3(m, [], "after everyone left and a refused deregister") is True)


def component_aliases(a1: bool, a2: bool, ti: int, op: int) -> bool:
    """
    pre: 0 <= ti < 2 and 0 <= op < 4
    post: _
    """
    # the deprecated camelCase entry points of agents and of the scheduler denote the same operations
    import warnings
    warnings.simplefilter("ignore")
    hx.begin()
    m = Model()
    x = _mk_agent(m, "x", a1, a2, False)       # driven through the canonical API
    y = _mk_agent(m, "y", a1, a2, False)       # driven through the aliases
    T = hx.pick(TYPES, ti)
    outs = []
    for ag, alias in ((x, False), (y, True)):
        r = None
        try:
            if op == 0:
                (ag.addComponent if alias else ag.add_component)(T(ag, m))
            elif op == 1:
                (ag.removeComponent if alias else ag.remove_component)(T)
            elif op == 2:
                r = (ag.getComponent if alias else ag.get_component)(T, True) is ag.components.get(T)
            else:
                r = (ag.hasComponent if alias else ag.has_component)(T, T1)
        except Exception as e:
            r = type(e).__name__
        outs.append((r, sorted(t.__name__ for t in ag.components)))
    hx.reach('compared')
    if outs[0] != outs[1]:
        return hx.end(hx.fail("alias and canonical entry point differ", canonical=outs[0], alias=outs[1], op=op))
    m.environment.add_agent(x)
    if m.systems.getComponents(T) is not m.systems.get_components(T):
        return hx.end(hx.fail("getComponents differs from get_components"))
    return hx.end(True)


# ------------------------------------------------------------------------------------------------ histories

def _apply(m, env, agents, resident, op, ai, ti):
    """Apply one operation of the history alphabet; returns False when the operation is outside the claimed class."""
    a = hx.pick(agents, ai)
    T = hx.pick(TYPES, ti)
    is_res = False
    for x in resident:
        if x is a:
            is_res = True
    if op == 'J':
        if is_res:
            return None
        env.add_agent(a)
        resident.append(a)
        hx.reach('join')
    elif op == 'L':
        if not is_res:
            return None
        env.remove_agent(a.id)
        resident.remove(a)
        hx.reach('leave')
    elif op == 'A':            # attach while NOT resident
        if is_res or T in a.components:
            return None
        a.add_component(T(a, m))
        hx.reach('offline_attach')
    elif op == 'D':            # detach while NOT resident
        if is_res or T not in a.components:
            return None
        a.remove_component(T)
        hx.reach('offline_detach')
    elif op == 'R':            # resident attaches and registers explicitly; claimed only when join order is preserved
        if not is_res or T in a.components:
            return None
        later_has = False
        seen = False
        for x in resident:
            if seen and T in x.components:
                later_has = True
            if x is a:
                seen = True
        if later_has:
            return None
        c = T(a, m)
        a.add_component(c)
        m.systems.register_component(c)
        hx.reach('resident_register')
    elif op == 'U':            # resident deregisters explicitly and detaches
        if not is_res or T not in a.components:
            return None
        m.systems.deregister_component(a.components[T])
        a.remove_component(T)
        hx.reach('resident_deregister')
    return True


def history(x0: int, t0: int, x1: int, t1: int, x2: int, t2: int, x3: int, t3: int, x4: int, t4: int) -> bool:
    """
    pre: 0 <= x0 < 2 and 0 <= x1 < 2 and 0 <= x2 < 2 and 0 <= x3 < 2 and 0 <= x4 < 2
    pre: 0 <= t0 < 2 and 0 <= t1 < 2 and 0 <= t2 < 2 and 0 <= t3 < 2 and 0 <= t4 < 2
    post: _
    """
    hx.begin()
    ops, kind = hx.P['ops'], hx.P['world']
    m = Model()
    env = _world(m, kind)
    agents = [Agent("a0", m), Agent("a1", m)]
    agents[1].add_component(T1(agents[1], m))          # a1 starts with a component attached before joining
    resident = []
    xs, ts = [x0, x1, x2, x3, x4], [t0, t1, t2, t3, t4]
    for k, op in enumerate(ops):
        if _apply(m, env, agents, resident, op, xs[k], ts[k]) is None:
            return hx.end(True)                         # operation not applicable here: outside this obligation
        if not hx.same_seq(list(env.agents.values()), resident):
            return hx.end(hx.fail("residents", step=k))
        # (partition option 'read_at': the listings are only READ after these steps - a change that keeps a pool's size
        # between two reads, e.g. one agent leaving and another joining, then has no read in between)
        if 'read_at' in hx.P and k not in hx.P['read_at']:
            continue
        if _check_i3(m, resident, "after step %d (%s)" % (k, op)) is not True:
            return hx.end(False)
    return hx.end(True)


_LABEL_OF = {'J': 'join', 'L': 'leave', 'A': 'offline_attach', 'D': 'offline_detach', 'R': 'resident_register',
             'U': 'resident_deregister'}


def _applicable(ops):
    """Concrete abstract simulation: is there a choice of (agent, type) per step under which every operation applies?"""
    import itertools
    for choice in itertools.product(range(4), repeat=len(ops)):
        res = []
        comps = [set(), {0}]
        ok = True
        for op, c in zip(ops, choice):
            a, t = c // 2, c % 2
            r = a in res
            if op == 'J':
                ok = not r
                if ok:
                    res.append(a)
            elif op == 'L':
                ok = r
                if ok:
                    res.remove(a)
            elif op == 'A':
                ok = (not r) and t not in comps[a]
                if ok:
                    comps[a].add(t)
            elif op == 'D':
                ok = (not r) and t in comps[a]
                if ok:
                    comps[a].discard(t)
            elif op == 'R':
                ok = r and t not in comps[a] and not any(t in comps[x] for x in res[res.index(a) + 1:])
                if ok:
                    comps[a].add(t)
            elif op == 'U':
                ok = r and t in comps[a]
                if ok:
                    comps[a].discard(t)
            if not ok:
                break
        if ok:
            return True
    return False


def _hist_parts(k, worlds):
    import itertools
    out = []
    for w in worlds:
        for t in itertools.product("JLADRU", repeat=k):
            s = "".join(t)
            if 'J' not in s:
                continue                    # nothing is ever resident: listings trivially empty
            if not _applicable(s):
                continue
            out.append({"ops": s, "world": w})
    return out


def _hist_labels(part):
    # the last operation's label proves the whole sequence was applicable at least once
    return (_LABEL_OF[part["ops"][-1]],)


def two_models(x0: int, x1: int, x2: int, x3: int) -> bool:
    """
    pre: 0 <= x0 < 2 and 0 <= x1 < 2 and 0 <= x2 < 2 and 0 <= x3 < 2
    post: _
    """
    hx.begin()
    ops = hx.P['ops']          # string over: j/l on model 0, J/L on model 1
    ms = [Model(), Model()]
    ags = [[_mk_agent(ms[0], "a0", True, False, False), _mk_agent(ms[0], "a1", True, True, False)],
           [_mk_agent(ms[1], "a0", True, True, True), _mk_agent(ms[1], "a1", False, True, False)]]   # same ids, same classes
    res = [[], []]
    xs = [x0, x1, x2, x3]
    for k, op in enumerate(ops):
        mi = 0 if op in "jl" else 1
        a = hx.pick(ags[mi], xs[k])
        other = 1 - mi
        snap = {T: list(v) for T, v in ms[other].systems.component_pools.items()}
        snap_ids = {T: v for T, v in ms[other].systems.component_pools.items()}
        is_res = a in res[mi]
        if op in "jJ":
            if is_res:
                return hx.end(True)
            ms[mi].environment.add_agent(a)
            res[mi].append(a)
        else:
            if not is_res:
                return hx.end(True)
            ms[mi].environment.remove_agent(a.id)
            res[mi].remove(a)
        # the other model's pools: same keys, same list objects, same contents
        now = ms[other].systems.component_pools
        if list(now) != list(snap):
            return hx.end(hx.fail("operation on one model changed the other's pool keys", step=k))
        for T in now:
            if now[T] is not snap_ids[T] or not hx.same_seq(now[T], snap[T]):
                return hx.end(hx.fail("operation on one model changed the other's pool", step=k))
        for i in (0, 1):
            if _check_i3(ms[i], res[i], "model %d after step %d" % (i, k)) is not True:
                return hx.end(False)
    if hx.P.get('migrate'):
        # an agent built for model 0 (its components carry model 0) that is not resident there joins model 1: the
        # listings follow residency, not the model a component was created for
        mover = ags[0][0] if ags[0][0] not in res[0] else ags[0][1]
        if mover not in res[0]:
            mover.id = "mover"
            ms[1].environment.add_agent(mover)
            res[1].append(mover)
            for i in (0, 1):
                if _check_i3(ms[i], res[i], "model %d after a foreign-built agent joined model 1" % i) is not True:
                    return hx.end(False)
            ms[1].environment.remove_agent("mover")
            res[1].remove(mover)
            for i in (0, 1):
                if _check_i3(ms[i], res[i], "model %d after the foreign-built agent left" % i) is not True:
                    return hx.end(False)
            hx.reach('migrated')
    hx.reach('done')
    return hx.end(True)


def handover(t1: bool, t2: bool, a1: bool, a2: bool, ao: bool, b1: bool, b2: bool, bo: bool, j: int) -> bool:
    """
    pre: 0 <= j < 2
    post: _
    """
    # an environment object that already served one model (an agent joined and left again, so it is empty) is handed to
    # another model - set_model + set_environment, the API's own way - and populated there: the NEW owner lists the
    # components, the former owner lists nothing
    hx.begin()
    kind = hx.P['world']
    m1, m2 = Model(), Model()
    env = _world(m1, kind)
    t = _mk_agent(m1, "t", t1, t2, False)
    env.add_agent(t)
    if _check_i3(m1, [t], "first owner while populated") is not True:
        return hx.end(False)
    env.remove_agent("t")
    if _check_i3(m1, [], "first owner after its agent left") is not True:
        return hx.end(False)
    env.set_model(m2)
    m2.set_environment(env)
    residents = [_mk_agent(m2, "r0", a1, a2, ao), _mk_agent(m2, "r1", b1, b2, bo)]
    for a in residents:
        env.add_agent(a)
    if a1 or a2 or b1 or b2:
        hx.reach('populated_after_handover')
    if _check_i3(m2, residents, "new owner after the handover") is not True:
        return hx.end(False)
    if _check_i3(m1, [], "former owner after the handover") is not True:
        return hx.end(False)
    leaver = hx.pick(residents, j)
    env.remove_agent(leaver.id)
    residents = [a for a in residents if a is not leaver]
    if _check_i3(m2, residents, "new owner after a leave") is not True:
        return hx.end(False)
    return hx.end(_check_i3(m1, [], "former owner after a leave in the handed-over environment") is True)


import ECAgent.Decode as _D


class _DecModel(Model, _D.IDecodable):
    @staticmethod
    def decode(params):
        return _DecModel()


class _DecAgent(Agent, _D.IDecodable):
    @staticmethod
    def decode(params):
        a = _DecAgent("d%d" % params["agent_index"], params["model"])
        if params["with1"]:
            a.add_component(T1(a, params["model"]))
        if params["with2"]:
            a.add_component(T2(a, params["model"]))
        return a


def _swap_environment(params):
    # a decode hook may give the model another environment through the public Model.set_environment()
    params["model"].set_environment(Environment(params["model"], id="SWAPPED"))


class _MemDecoder(_D.Decoder):
    def __init__(self, data):
        self.data = data

    def open_file(self, path):
        return self.data


def decoded_model(w1: bool, w2: bool, n: int, swap: bool) -> bool:
    """
    pre: 0 <= n <= 2
    post: _
    """
    # a model built by the decoder (optionally with a hook that replaces the environment before the agents are created):
    # the listings mirror exactly the agents in the model's environment
    hx.begin()
    group = {"name": "_DecAgent", "module": __name__, "number": n, "params": {"with1": w1, "with2": w2}}
    if swap:
        group["pre_agent_init"] = {"func": "_swap_environment", "module": __name__, "params": {}}
    data = {"model": {"name": "_DecModel", "module": __name__, "params": {}}, "systems": [], "agents": [group]}
    m = _MemDecoder(data).decode("m.json")
    residents = list(m.environment.agents.values())
    if swap:
        hx.reach('swapped')
        if m.environment.id != "SWAPPED":
            return hx.end(hx.fail("the hook's environment was replaced again"))
    if len(residents) != n:
        return hx.end(hx.fail("agents in the decoded model's environment", got=[a.id for a in residents], exp=n, swapped=swap))
    return hx.end(_check_i3(m, residents, "decoded model") is True)


def _two_parts(k):
    import itertools
    out = []
    for t in itertools.product("jlJL", repeat=k):
        s = "".join(t)
        if not ('j' in s and 'J' in s):
            continue
        # applicable for some choice: per model, leaves never exceed earlier joins and at most 2 agents resident
        ok = True
        for grp in ("jl", "JL"):
            n = 0
            for ch in s:
                if ch == grp[0]:
                    n += 1
                elif ch == grp[1]:
                    n -= 1
                if n < 0 or n > 2:
                    ok = False
        if ok:
            out.append({"ops": s})
    return out


# ------------------------------------------------------------------------------------------------ findings

def _resident_state(m, env, flags):
    residents = [_mk_agent(m, "r%d" % i, *f) for i, f in enumerate(flags)]
    _install(m, env, residents)
    return residents


def f1_attach_resident(a1: bool, a2: bool, b1: bool, b2: bool, j: int, ti: int) -> bool:
    """
    pre: 0 <= j < 2 and 0 <= ti < 2
    post: _
    """
    # class F1: a resident attaches a component without calling register_component
    hx.begin()
    m = Model()
    env = m.environment
    residents = _resident_state(m, env, [(a1, a2, False), (b1, b2, False)])
    a, T = hx.pick(residents, j), hx.pick(TYPES, ti)
    if T in a.components:
        return hx.end(True)
    before = {K: list(v) for K, v in m.systems.component_pools.items()}
    a.add_component(T(a, m))
    hx.reach('attached')
    ok = _check_i3(m, residents, "after resident attach")
    if hx.P['mode'] == 'prop':
        return hx.end(ok is True)
    if ok is True:
        return hx.end(True)
    # recorded deviating behaviour: the listings are exactly what they were before the attach
    now = m.systems.component_pools
    if list(now) != list(before):
        return hx.end(hx.fail("F1: pools changed in an unrecorded way"))
    for K in now:
        if not hx.same_seq(now[K], before[K]):
            return hx.end(hx.fail("F1: pools changed in an unrecorded way"))
    return hx.end(True)


def f2_detach_resident(a1: bool, a2: bool, b1: bool, b2: bool, j: int, ti: int) -> bool:
    """
    pre: 0 <= j < 2 and 0 <= ti < 2
    post: _
    """
    # class F2: a resident detaches a component without calling deregister_component
    hx.begin()
    m = Model()
    env = m.environment
    residents = _resident_state(m, env, [(a1, a2, False), (b1, b2, False)])
    a, T = hx.pick(residents, j), hx.pick(TYPES, ti)
    if T not in a.components:
        return hx.end(True)
    before = {K: list(v) for K, v in m.systems.component_pools.items()}
    a.remove_component(T)
    hx.reach('detached')
    ok = _check_i3(m, residents, "after resident detach")
    if hx.P['mode'] == 'prop':
        return hx.end(ok is True)
    if ok is True:
        return hx.end(True)
    now = m.systems.component_pools
    if list(now) != list(before):
        return hx.end(hx.fail("F2: pools changed in an unrecorded way"))
    for K in now:
        if not hx.same_seq(now[K], before[K]):
            return hx.end(hx.fail("F2: pools changed in an unrecorded way"))
    return hx.end(True)


def f3_leave_after_change(a1: bool, a2: bool, b1: bool, b2: bool, j: int, ti: int) -> bool:
    """
    pre: 0 <= j < 2 and 0 <= ti < 2
    post: _
    """
    # class F3: remove_agent of an agent whose component set changed while it was resident (after F1 or F2)
    hx.begin()
    m = Model()
    env = m.environment
    residents = _resident_state(m, env, [(a1, a2, False), (b1, b2, False)])
    a, T = hx.pick(residents, j), hx.pick(TYPES, ti)
    stale = None
    if T in a.components:
        stale = a.components[T]
        a.remove_component(T)             # F2 happened
    else:
        a.add_component(T(a, m))          # F1 happened
    hx.reach('changed')
    rest = [x for x in residents if x is not a]
    raised = None
    try:
        env.remove_agent(a.id)
    except KeyError:
        raised = 'KeyError'
    gone = a.id not in env.agents
    ok = raised is None and gone and _check_i3(m, rest, "after leaving") is True
    if hx.P['mode'] == 'prop':
        return hx.end(ok)
    if ok:
        return hx.end(True)
    # recorded deviating behaviour (a) after F1: KeyError, the agent stays resident
    if raised == 'KeyError' and not gone and stale is None:
        return hx.end(True)
    # (b) after F2: the agent leaves, its stale component stays listed, everything else is I3
    if raised is None and gone and stale is not None:
        exp = _i3_pools(rest)
        now = m.systems.component_pools
        for K in (T1, T2):
            e = list(exp.get(K, []))
            g = list(now.get(K, []))
            if K is T:
                g = [c for c in g if c is not stale]
            if not hx.same_seq(g, e):
                return hx.end(hx.fail("F3: unrecorded behaviour", type=K.__name__))
        return hx.end(True)
    return hx.end(hx.fail("F3: unrecorded behaviour", raised=raised, gone=gone))


def f3_register_order(a1: bool, a2: bool, b1: bool, b2: bool, ti: int) -> bool:
    """
    pre: 0 <= ti < 2
    post: _
    """
    # class F3 (second half): explicit register of a resident's new component while a later-joined resident has that type
    hx.begin()
    m = Model()
    env = m.environment
    residents = _resident_state(m, env, [(a1, a2, False), (b1, b2, False)])
    a, b, T = residents[0], residents[1], hx.pick(TYPES, ti)
    if T in a.components or T not in b.components:
        return hx.end(True)
    c = T(a, m)
    a.add_component(c)
    m.systems.register_component(c)
    hx.reach('registered')
    ok = _check_i3(m, residents, "after explicit register")
    if hx.P['mode'] == 'prop':
        return hx.end(ok is True)
    if ok is True:
        return hx.end(True)
    # recorded: listed, but at the end
    got = m.systems[T]
    return hx.end(got is not None and hx.same_seq(got, [b.components[T], c]))


BOUNDS = {"quick": {"residents": "<= 3 (+1 joining)", "component types": "2 (+1 nobody has)", "history": "<= 3 operations, 2 agents",
                    "models alive": 2},
          "thorough": {"residents": "<= 3 (+1 joining)", "component types": "2 (+1 nobody has)", "history": "<= 4 operations, 2 agents",
                       "models alive": 2}}
OUTSIDE = ["more than 3 residents / 2 user component types", "component classes with custom __eq__ (excluded by the property)",
           "one component instance shared by two agents (excluded by the property)"]
STUBS = ["real GridWorld/LineWorld/DiscreteWorld objects are constructed once, concretely (pandas cell table outside the symbolic run); "
         "their agents/components/model are reset per path"]
ASSUMPTIONS = ["pre-states of step obligations are arbitrary I3 states written directly into agents/component_pools",
               "known-finding classes F1-F3 are excluded from `history`/`join_leave_step` by construction and decided separately"]


def obligations(tier):
    k = 3 if tier == "quick" else 4
    enc = (Environment.add_agent, Environment.remove_agent, SystemManager.register_component,
           SystemManager.deregister_component, SystemManager.get_components, SystemManager.__getitem__,
           Agent.add_component, Agent.remove_component)
    senc = enc + (Env.SpaceWorld.add_agent, Env.SpaceWorld.remove_agent)
    step_parts = [{"r": r, "op": op, "world": "plain"} for r in range(0, 4) for op in ("join", "leave") if not (r == 0 and op == "leave")]
    sp_worlds = ["space", "grid"] if tier == "quick" else ["space", "space_wrap", "grid", "line", "discrete"]
    sp_parts = [{"r": r, "op": op, "world": w} for w in sp_worlds for r in (2,) for op in ("join", "leave")]
    step_parts += [{"r": 2, "op": op, "world": "plain", "completed": True} for op in ("join", "leave")]
    sp_parts += [{"r": 2, "op": op, "world": "space", "completed": True} for op in ("join", "leave")]
    obs = [
        X("join_leave_step", join_leave_step, parts=step_parts, labels=("join_with_components", "leave_with_components"),
          labels_for=lambda p: ("join_with_components",) if p["op"] == "join" else ("leave_with_components",),
          timeout=600, encoded=enc, bounds={"residents": "0..3", "subsets of {T1,T2}, attach order": "all"}),
        X("spatial", join_leave_step, parts=sp_parts, labels=("join_with_components", "leave_with_components"),
          labels_for=lambda p: ("join_with_components",) if p["op"] == "join" else ("leave_with_components",),
          timeout=600, encoded=senc, bounds={"residents": "2", "worlds": ",".join(sp_worlds)}),
        X("rejected_join", rejected_join, parts=[{"world": w} for w in ["plain"] + sp_worlds], labels=("rejected",), timeout=600,
          encoded=senc, bounds={"residents": 2, "position": "all ints", "cause": "duplicate id / out of bounds on any axis and side"}),
        X("component_aliases", component_aliases, labels=("compared",), timeout=300, encoded=enc),
        X("install_populated", install_populated, parts=[{"world": w} for w in ["plain"] + sp_worlds], labels=("populated",), timeout=600,
          encoded=senc + (Model.set_environment,)),
        X("handover", handover, parts=[{"world": w} for w in ["plain"] + sp_worlds], labels=("populated_after_handover",), timeout=600,
          encoded=senc + (Environment.set_model, Model.set_environment),
          bounds={"history": "one agent joins and leaves under the first model, hand-over, two agents join, one leaves"}),
        X("refused_deregister", refused_deregister, labels=("refused",), timeout=300, encoded=enc),
        X("history", history, parts=_hist_parts(k, ["plain"]), labels=tuple(_LABEL_OF.values()), labels_for=_hist_labels,
          timeout=300, group=6, encoded=enc,
          bounds={"operations": "<= %d over {join, leave, offline attach/detach, resident register (order-preserving), resident deregister}" % k}),
        X("decoded_model", decoded_model, labels=("swapped",), timeout=300, encoded=enc + (_D.Decoder.decode,),
          bounds={"agents": "0..2 in one group", "components": "any subset of {T1, T2}"}),
        X("history_sparse_reads", history, parts=[{"ops": "JLAJ", "world": "plain", "read_at": [0, 3]}, {"ops": "JAJLJ", "world": "plain", "read_at": [2, 4]},
                                                 {"ops": "JLAJ", "world": "space", "read_at": [0, 3]}],
          labels=tuple(_LABEL_OF.values()), labels_for=_hist_labels, timeout=300, encoded=enc,
          bounds={"operations": "4-5, listings read only after the first and the last of them"}),
        X("history_spatial", history, parts=_hist_parts(2 if tier == "quick" else 3, ["space"]) +
          [{"ops": o, "world": w} for o in ("JRL", "JRU", "AJL", "JLJ") for w in ("space", "grid")], labels=tuple(_LABEL_OF.values()),
          labels_for=_hist_labels, timeout=300, group=6, encoded=senc, bounds={"operations": "<= %d in a SpaceWorld" % (2 if tier == "quick" else 3)}),
        X("two_models", two_models, parts=_two_parts(k) + [{"ops": o, "migrate": True} for o in ("jJ", "jlJ", "Jj")],
          labels=("done", "migrated"), labels_for=lambda p: ("done", "migrated") if p.get("migrate") else ("done",),
          timeout=300, group=4, encoded=enc,
          bounds={"operations": "<= %d join/leave interleaved over two models" % k}),
    ]
    for fid, fn, lab in (("F1", f1_attach_resident, "attached"), ("F2", f2_detach_resident, "detached"),
                         ("F3", f3_leave_after_change, "changed"), ("F3", f3_register_order, "registered")):
        nm = fn.__name__
        obs.append(X(nm + ".prop", fn, parts=[{"mode": "prop"}], labels=(lab,), timeout=300, encoded=enc,
                     role="finding_prop", finding=fid))
        obs.append(X(nm + ".recorded", fn, parts=[{"mode": "recorded"}], labels=(lab,), timeout=300, encoded=enc,
                     role="finding_recorded", finding=fid))
    return obs
