"""C05 - systems changing the system set mid-timestep never cause skips or reruns (engine X)."""
import vf.hx as hx
from vf.spec import X
from ECAgent.Core import Model, System, SystemManager


class LogModel(Model):
    __slots__ = ['log', 'when']

    def __init__(self):
        from vf.stubs import NULL_LOGGER
        super().__init__(logger=NULL_LOGGER)
        self.log = []
        self.when = []


class S(System):
    __slots__ = ['acts']

    def __init__(self, id, model, priority=0, frequency=1):
        super().__init__(id, model, priority=priority, frequency=frequency)
        self.acts = []

    def execute(self):
        self.model.log.append(self)          # the object, not its id: a removed system and its replacement may share an id
        self.model.when.append(self.model.systems.timestep)
        if self.model.systems.timestep == 0:
            for act in self.acts:
                act()


class SOwnCleanup(S):
    """a system class with its own clean_up() bookkeeping that does not chain to the base class (nothing in the library
    requires it to): removing it BY ID still removes it"""
    __slots__ = ['cleaned']

    def clean_up(self):
        self.cleaned = True


class SysId(str):
    """identifiers that are strings without being exactly `str` (str-based enum members, numpy.str_, ... behave alike)"""


def _queue(m, ps, frequency=1):
    """I1 pre-state built through the API (registration order = index order)."""
    mk = SysId if hx.P.get('str_ids') else str
    cls = SOwnCleanup if hx.P.get('own_cleanup') else S
    ss = [cls(mk("s%d" % i), m, ps[i], frequency) for i in range(len(ps))]
    for s in ss:
        m.systems.add_system(s)
    return ss


def midstep(p0: int, p1: int, p2: int, p3: int, actor: int, target: int, pn: int,
            actor2: int, target2: int, pn2: int) -> bool:
    """
    pre: 0 <= actor < hx.P['n'] and 0 <= target < hx.P['n']
    pre: 0 <= actor2 < hx.P['n'] and 0 <= target2 < hx.P['n']
    post: _
    """
    hx.begin()
    n, kinds = hx.P['n'], hx.P['kinds']       # kinds: one or two of 'self' | 'remove' | 'add'
    m = LogModel()
    # 'sparse': the systems present at the start only run every other timestep, so in the timestep after the action only
    # systems registered mid-timestep are due
    sparse = hx.P.get('sparse', False)
    prios = [p0, p1, p2, p3][:n]
    if 'prios' in hx.P:                      # a long queue with concrete priorities (ties among them); actor and target symbolic
        prios = list(hx.P['prios'])
    ss = _queue(m, prios, 2 if sparse else 1)
    before = list(m.systems.execution_queue)
    removed = []            # (system, position of the remover in `before`)
    added = []
    readded = []
    errors = []
    regseq = list(ss)       # the systems registered right now, in the order of their (latest) registration

    def mk(kind, who, tgt, prio, tag):
        def act():
            if kind == 'self':
                if m.systems.systems.get(who.id) is who:       # (a second self-removal by the same system is a no-op)
                    who.clean_up()
                    removed.append(who)
                    regseq.remove(who)
            elif kind == 'remove':
                if m.systems.systems.get(tgt.id) is tgt:
                    m.systems.remove_system(tgt.id)
                    removed.append(tgt)
                    regseq.remove(tgt)
            elif kind == 'readd':                   # remove a system and register THE SAME object again, with a new priority
                if m.systems.systems.get(tgt.id) is tgt:
                    m.systems.remove_system(tgt.id)
                    tgt.priority = prio
                    m.systems.add_system(tgt)
                    readded.append(tgt)
                    regseq.remove(tgt)
                    regseq.append(tgt)
            elif kind == 'replace':                 # remove a system and register a DIFFERENT object under the same id
                if m.systems.systems.get(tgt.id) is tgt:
                    m.systems.remove_system(tgt.id)
                    removed.append(tgt)
                    regseq.remove(tgt)
                    new = S(tgt.id, m, prio)
                    m.systems.add_system(new)
                    added.append(new)
                    regseq.append(new)
            elif kind == 'add_taken':               # "make sure it exists": register a NEW object under the target's id and
                new = S(tgt.id, m, prio)            # rely on the documented KeyError when the id is taken
                if m.systems.systems.get(tgt.id) is not None:
                    try:
                        m.systems.add_system(new)
                        errors.append("a second system object was accepted under the taken id %r" % (tgt.id,))
                    except KeyError:
                        hx.reach('refused')
                else:
                    m.systems.add_system(new)
                    added.append(new)
                    regseq.append(new)
            else:
                new = S("new" + tag, m, prio, hx.P.get('add_freq', 1))
                m.systems.add_system(new)
                added.append(new)
                regseq.append(new)
        return act

    a1, t1 = hx.pick(ss, actor), hx.pick(ss, target)
    a1.acts.append(mk(kinds[0], a1, t1, pn, "1"))
    plan = [(a1, kinds[0], t1)]
    if len(kinds) > 1:
        a2, t2 = hx.pick(ss, actor2), hx.pick(ss, target2)
        a2.acts.append(mk(kinds[1], a2, t2, pn2, "2"))
        plan.append((a2, kinds[1], t2))
    if hx.P.get('other_model'):
        # every system of THIS model also steps ANOTHER model from inside its execute() (nested simulations); the other
        # model's scheduler must not disturb this one's bookkeeping
        other = LogModel()
        other.systems.add_system(S("o0", other, 0))
        other.systems.add_system(S("o1", other, 1))

        def step_other():
            other.systems.timestep = 5            # (so that the other model's systems do not act)
            other.execute()
        for s_ in ss:
            s_.acts.append(step_other)
    multi = hx.P.get('multi', False)
    if multi:
        m.execute(2)                              # both timesteps requested with ONE call
    else:
        m.execute()
    if errors:
        return hx.end(hx.fail(errors[0]))
    cut = len([t for t in m.when if t == 0])
    log = list(m.log[:cut])
    log_second = list(m.log[cut:])
    names = lambda xs: ["%s%s" % (x.id, "" if x in before else "'") for x in xs]
    # (1) nothing runs twice
    for i in range(len(log)):
        for j2 in range(i + 1, len(log)):
            if log[i] is log[j2]:
                return hx.end(hx.fail("a system ran twice in one timestep", log=names(log), queue=names(before)))
    # reference semantics over the systems registered at the start of the timestep: each runs at its turn iff it is
    # still registered then.  This yields (2) every system that stays registered runs exactly once, in priority
    # order, and (3) a system removed before its turn does not run.
    reg = list(before)
    again = []              # systems removed and registered again earlier in this timestep ("newly registered")
    exp = []
    for s in before:
        if s in reg:
            exp.append(s)
            acts_now = True
        elif s in again:
            # whether a re-registered system runs in that timestep is left open: the reference follows what happened,
            # because IF it ran, its own action took effect on the systems after it
            acts_now = False
            for x in log:
                if x is s:
                    acts_now = True
        else:
            acts_now = False
        if acts_now:
            for who, kind, tgt in plan:
                if who is s:
                    if kind == 'self':
                        if s in reg:
                            reg.remove(s)
                        elif s in again:
                            again.remove(s)
                    elif kind in ('remove', 'replace'):
                        if tgt in reg:
                            reg.remove(tgt)
                        elif tgt in again:
                            again.remove(tgt)
                    elif kind == 'readd':
                        if tgt in reg:
                            reg.remove(tgt)
                            again.append(tgt)
    # a system removed and re-registered in the same timestep counts as newly registered: whether it runs in that
    # timestep is left open - but it never runs twice (1), and it is left out of the comparison below
    got = [x for x in log if x in before and x not in readded]
    exp = [x for x in exp if x not in readded]
    if not hx.same_seq(got, exp):
        return hx.end(hx.fail("systems skipped / run after removal / reordered", log=names(log), expected=names(exp),
                              queue=names(before)))
    if readded:
        hx.reach('readded')
    if removed:
        hx.reach('removed')
    if added:
        hx.reach('added')
    # (4) systems added mid-timestep run at most once (covered by (1)); the next timestep is a plain ordered run
    # (C01) whatever ran in the timestep, also newly registered systems, ran in descending priority order
    for i in range(len(log) - 1):
        if log[i] not in readded and log[i + 1] not in readded and log[i].priority < log[i + 1].priority:
            return hx.end(hx.fail("systems ran out of priority order within the timestep", log=names(log),
                                  priorities=[x.priority for x in log]))
    if not multi:
        m.execute()
        log_second = list(m.log[cut:])
    due = [x for x in m.systems.execution_queue if (1 - x.start) % x.frequency == 0]
    if not hx.same_seq(log_second, due):
        return hx.end(hx.fail("next timestep is not a plain run of the queue", log=names(log_second),
                              queue=names(m.systems.execution_queue), one_call=multi))
    want = [s for s in before if s not in removed and not sparse] + [s for s in added if (1 - s.start) % s.frequency == 0]
    if len(log_second) != len(want) or not all(any(x is y for y in log_second) for x in want):
        return hx.end(hx.fail("next timestep ran a different set of systems", log=names(log_second), exp=names(want)))
    q = m.systems.execution_queue
    for i in range(len(q) - 1):
        if q[i].priority < q[i + 1].priority:
            return hx.end(hx.fail("queue not in priority order afterwards"))
    # (C01) ... and among equal priorities in the order of registration, also for systems registered mid-timestep
    for i in range(len(log_second)):
        for j2 in range(i + 1, len(log_second)):
            a, b = log_second[i], log_second[j2]
            if a.priority == b.priority and a in regseq and b in regseq and regseq.index(a) > regseq.index(b):
                return hx.end(hx.fail("equal-priority systems ran against their registration order in the next timestep",
                                      log=names(log_second), registered=names(regseq),
                                      priorities=[x.priority for x in log_second]))
    if hx.P.get('add_freq', 1) > 1:
        # systems registered mid-timestep with a frequency of their own keep to THEIR schedule from then on
        mark = len(m.log)
        m.execute()
        third = list(m.log[mark:])
        due3 = [x for x in m.systems.execution_queue if (2 - x.start) % x.frequency == 0]
        if not hx.same_seq(third, due3):
            return hx.end(hx.fail("third timestep: systems registered mid-timestep are off their schedule", log=names(third),
                                  due=names(due3)))
        return hx.end(m.timestep == 3)
    return hx.end(m.timestep == 2)


BOUNDS = {"quick": {"systems": "1..3 with symbolic priorities; one queue of 17 with concrete priorities", "mid-timestep actions": "1 (2 for n=2)", "priorities": "all ints"},
          "thorough": {"systems": "1..4", "mid-timestep actions": "<= 2", "priorities": "all ints"}}
OUTSIDE = ["more than 2 structural actions in one timestep", "actions performed by a system that was itself added in that timestep"]
STUBS = []
ASSUMPTIONS = ["acting systems perform their action at the end of their own execute()",
               "whether a system registered mid-timestep first runs in that timestep or the next is left open (as the property says)"]


def obligations(tier):
    enc = (SystemManager.execute_systems, SystemManager.add_system, SystemManager.remove_system, System.clean_up)
    ns = (1, 2, 3) if tier == "quick" else (1, 2, 3, 4)
    parts = [{"n": n, "kinds": [k]} for n in ns for k in ("self", "remove", "add", "replace", "readd")]
    two = [(a, b) for a in ("self", "remove", "add", "replace", "readd") for b in ("self", "remove", "add", "replace", "readd")]
    # (n = 3 with two registrations-in-disguise in one timestep - add/replace/readd paired with add - does not finish within
    # 20 minutes per partition since the registration-order reference was added; those five pairs are decided at n = 2)
    heavy = {("add", "add"), ("add", "replace"), ("add", "readd"), ("replace", "add"), ("readd", "add")}
    parts += [{"n": n, "kinds": [a, b]} for n in ((2,) if tier == "quick" else (2, 3)) for a, b in two if not (n == 3 and (a, b) in heavy)]
    parts += [{"n": 2, "kinds": [k], "multi": True} for k in ("self", "remove", "add", "replace")]
    parts += [{"n": 2, "kinds": [k], "other_model": True} for k in ("self", "remove", "replace")]
    parts += [{"n": 2, "kinds": ks, "sparse": True} for ks in (["add"], ["replace"], ["add", "add"])]
    parts += [{"n": 2, "kinds": [k], "str_ids": True} for k in ("self", "remove", "replace")]
    parts += [{"n": 2, "kinds": [k], "own_cleanup": True} for k in ("remove", "replace")]
    parts += [{"n": 2, "kinds": ["add"], "add_freq": 2}, {"n": 2, "kinds": ["add", "add"], "add_freq": 2}]
    parts += [{"n": 17, "kinds": [k], "prios": [30, 20, 20, 20, 10, 10, 10, 10, 5, 5, 5, 0, 0, 0, -1, -1, -7]} for k in ("remove", "self")]
    parts += [{"n": 2, "kinds": ["add_taken"]}, {"n": 3, "kinds": ["add_taken"]}, {"n": 2, "kinds": ["remove", "add_taken"]}]
    if tier != "quick":
        parts += [{"n": 3, "kinds": ["remove", "add_taken"]}]
    if tier != "quick":
        # (all 25 ordered pairs for n = 3 above; with execute(2) / a second model stepped from inside, a spread of 7 pairs -
        # the full set did not finish within the time limit)
        few = [("self", "remove"), ("remove", "add"), ("add", "self"), ("replace", "readd"), ("readd", "remove"),
               ("replace", "self"), ("remove", "replace")]
        parts += [{"n": 3, "kinds": [a, b], "multi": True} for a, b in few] + [{"n": 3, "kinds": [a, b], "other_model": True} for a, b in few]

    def lab(p):
        ks = p["kinds"]
        out = []
        if "self" in ks or "remove" in ks or "replace" in ks:
            out.append("removed")
        if ks == ["readd"] or ks == ["readd", "readd"]:
            out.append("readded")
        if "add" in ks or "replace" in ks or ks == ["remove", "add_taken"]:
            out.append("added")
        if "add_taken" in ks:
            out.append("refused")
        return tuple(out)
    return [X("midstep", midstep, parts=parts, labels=("removed", "added", "readded", "refused"), labels_for=lab, timeout=600 if tier == "quick" else 1200, group=1,
              encoded=enc, bounds={"n": "1..%d" % ns[-1]})]
