"""C07 - same seed, same trajectory, independent of global state and other models (engine X).

Decided fragment: NON-INTERFERENCE as a 2-safety statement.  The model's generator is a symbolic stream r; every
process-global generator is a havoc stub driven by an independent symbolic stream g; the iteration order of every builtin set the
framework builds (which CPython derives from hash values, i.e. object addresses / PYTHONHASHSEED - ambient process
state) is symbolic too (stream h).  The result of every random service
must equal an oracle computed from r and the model's own configuration alone; if the framework consulted a global
generator, another model, or hash/address order, the result would depend on g / h and z3 exhibits it.
"""
import random
import vf.hx as hx
from vf.spec import X
from vf.stubs import SymRandom, Havoc, HavocSet, NULL_LOGGER
import ECAgent.Core as Core
from ECAgent.Core import Model, Agent, Component, Environment
import ECAgent.Environments as Env
import numpy as np


class T1(Component):
    pass


class HA(Agent):
    __slots__ = ['h']


_REAL = {}


def _real():
    if not _REAL:
        _REAL['grid'] = Env.GridWorld(Model(), 3, 3)


_real()


def _world(m, kind):
    if kind == 'plain':
        return m.environment
    if kind == 'space':
        env = Env.SpaceWorld(m, 5, 5, 0)
    else:
        env = _REAL[kind]
        env.agents.clear()
        env.components.clear()
        env.set_model(m)
    m.environment = env
    return env


_MISSING = object()


_SEEN = []


def _havoc_id(obj):
    """builtin id() as seen by the framework's modules: an object's address is ambient process state (allocator history,
    other models built and dropped before) - arbitrary, but stable per object and distinct between objects.  Agents
    carry their symbolic 'address rank' in .h; everything else gets consecutive numbers."""
    for k, o in enumerate(_SEEN):
        if o is obj:
            break
    else:
        _SEEN.append(obj)
        k = len(_SEEN) - 1
    h = getattr(obj, 'h', 0) if isinstance(obj, HA) else 0
    return h * 1024 + k


class _Patch:
    """havoc every process-global generator for the duration of a path"""

    def __init__(self, h):
        self.h = h
        self.saved = []

    def __enter__(self):
        # the builtin set/frozenset as seen by the framework's modules: iteration order is arbitrary (symbolic)
        import ECAgent.Batching as _B
        import ECAgent.Collectors as _C
        for mod in (Core, Env, _B, _C):
            for n in ("set", "frozenset"):
                self.saved.append((mod, n, mod.__dict__.get(n, _MISSING)))
                setattr(mod, n, HavocSet)
            self.saved.append((mod, "id", mod.__dict__.get("id", _MISSING)))
            setattr(mod, "id", _havoc_id)
        del _SEEN[:]
        for mod, names in ((random, ("choice", "shuffle", "random", "randint", "randrange", "sample")),
                           (np.random, ("choice", "shuffle", "random", "randint", "permutation"))):
            for n in names:
                self.saved.append((mod, n, getattr(mod, n)))
                setattr(mod, n, getattr(self.h, n, self.h.random))
        return self

    def __exit__(self, *a):
        for mod, n, v in self.saved:
            if v is _MISSING:
                delattr(mod, n)
            else:
                setattr(mod, n, v)
        return False


def _populate(m, env, n, comps, tags, hashes, spatial):
    res = []
    for i in range(n):
        a = HA("a%d" % i, m, tag=tags[i])
        a.h = hashes[i]
        if comps[i]:
            a.add_component(T1(a, m))
        if spatial:
            env.add_agent(a, i % 3, 0, 0)
        else:
            env.add_agent(a)
        res.append(a)
    return res


def _fisher_yates(seq, rs):
    exp = list(seq)
    k = 0
    for i in reversed(range(1, len(exp))):
        j = rs[k] % (i + 1)
        k += 1
        for c in range(i + 1):
            if j == c:
                exp[i], exp[c] = exp[c], exp[i]
    return exp


def draws_only_from_model(c0: bool, c1: bool, c2: bool, t0: int, t1: int, t2: int, h0: int, h1: int, h2: int,
                          w1: bool, use_tag: bool, r0: int, r1: int, r2: int, g0: int, g1: int, g2: int) -> bool:
    """
    pre: 0 <= t0 <= 1 and 0 <= t1 <= 1 and 0 <= t2 <= 1
    pre: 0 <= h0 < 8 and 0 <= h1 < 8 and 0 <= h2 < 8
    pre: r0 >= 0 and r1 >= 0 and r2 >= 0 and g0 >= 0 and g1 >= 0 and g2 >= 0
    post: _
    """
    hx.begin()
    n, kind, service, other = hx.P['n'], hx.P['world'], hx.P['service'], hx.P.get('other', False)
    m = Model(seed=1, logger=NULL_LOGGER)
    env = _world(m, kind)
    if hx.P.get('rehost'):
        # the environment object first serves another model (which draws from its own generator), then is handed over:
        # set_model + set_environment.  From then on every draw comes from the new owner's generator.
        first = Model(seed=7, logger=NULL_LOGGER)
        first.random = SymRandom([g0, g1, g2])
        env.set_model(first)
        first.set_environment(env)
        tmp = [HA("t%d" % i, first) for i in range(2)]
        for a_ in tmp:
            env.add_agent(a_)
        env.get_random_agent()
        env.shuffle()
        for a_ in tmp:
            env.remove_agent(a_.id)
        env.set_model(m)
        m.set_environment(env)
    rng = SymRandom([r0, r1, r2])
    m.random = rng
    hav = Havoc([g0, g1, g2, g0, g1, g2])
    HavocSet.order, HavocSet._k, HavocSet.iterated = [h0, h1, h2], 0, 0
    with _Patch(hav):
        res = _populate(m, env, n, [c0, c1, c2], [t0, t1, t2], [h0, h1, h2], kind != 'plain')
        if other:
            # another model, same classes, own generator, built and used in between
            m2 = Model(seed=2, logger=NULL_LOGGER)
            m2.random = SymRandom([g2, g1, g0])
            for i in range(2):
                b = HA("a%d" % i, m2, tag=1)
                b.h = i
                b.add_component(T1(b, m2))
                m2.environment.add_agent(b)
            m2.environment.get_random_agent(T1)
            m2.environment.shuffle()
            m2.environment.remove_agent("a0")
        if hx.P.get('completed'):
            m.complete()                   # a model that has completed still draws from its own generator (closing lottery)
        tmpl = [T1] if w1 else []
        kw = {"tag": 1} if use_tag else {}
        spec = [a for a in res if ((not w1) or T1 in a.components) and ((not use_tag) or a.tag == 1)]
        if service == 'pick':
            got = env.get_random_agent(*tmpl, **kw)
            if len(spec) == 0:
                ok = got is None
            else:
                ok = got is hx.pick(spec, r0 % len(spec))
            if len(spec) >= 2:
                hx.reach('real_choice')
            if not ok:
                return hx.end(hx.fail("random pick is not a function of the model's own generator and configuration",
                                      got=None if got is None else got.id, filter=[a.id for a in spec], r=r0, hashes=[h0, h1, h2]))
        else:
            got = env.shuffle(*tmpl, **kw)
            exp = _fisher_yates(spec, [r0, r1, r2])
            if len(spec) >= 2:
                hx.reach('real_choice')
            if not hx.same_seq(got, exp):
                return hx.end(hx.fail("shuffle is not a function of the model's own generator and configuration",
                                      got=[a.id for a in got], exp=[a.id for a in exp], hashes=[h0, h1, h2]))
        if hav.used != 0:
            return hx.end(hx.fail("a process-global generator was consulted", times=hav.used))
        # exactly the draws the service needs were taken from the model's generator
        need = (1 if len(spec) > 0 else 0) if service == 'pick' else max(len(spec) - 1, 0)
        if len(rng.draws) != need:
            return hx.end(hx.fail("number of draws from the model's generator", got=len(rng.draws), exp=need))
    return hx.end(True)


class _RecRandomModule:
    """stand-in for the `random` module as seen by ECAgent.Core: records how generators are constructed and seeded"""

    def __init__(self):
        self.made = []
        outer = self

        class Random:
            def __init__(self, *a, **k):
                if k or len(a) > 1:
                    raise hx.StubLimit("random.Random(%r, %r)" % (a, k))
                self.seeded_with = list(a)          # [] = constructed without a seed (OS entropy)
                outer.made.append(self)

            def seed(self, *a, **k):
                if k or len(a) > 1:
                    raise hx.StubLimit("Random.seed(%r, %r)" % (a, k))
                self.seeded_with = list(a)
        self.Random = Random

    def __getattr__(self, n):
        raise hx.StubLimit("random.%s used by Model.__init__" % n)


def seed_plumbing(seed: int, none_seed: bool) -> bool:
    """
    post: _
    """
    hx.begin()
    rec = _RecRandomModule()
    saved = Core.random
    Core.random = rec
    try:
        s = None if none_seed else seed
        m = Model(s, logger=NULL_LOGGER) if hx.P['positional'] else Model(seed=s, logger=NULL_LOGGER)
        m2 = Model(seed=s, logger=NULL_LOGGER)
    finally:
        Core.random = saved
    if seed == 0 and not none_seed:
        hx.reach('seed_zero')
    if none_seed:
        hx.reach('no_seed')
    for model in (m, m2):
        # the model owns a generator made during ITS construction and seeded (at construction or by seed()) with exactly
        # the caller's seed - None meaning "no seed given"
        g = model.random
        if not any(g is x for x in rec.made):
            return hx.end(hx.fail("model.random was not created by this model's construction (shared / pre-built generator?)"))
        if not (len(g.seeded_with) == 1 and g.seeded_with[0] is s) and not (s is None and g.seeded_with == []):
            return hx.end(hx.fail("the model's generator is not seeded with exactly the caller's seed", seeded_with=g.seeded_with, seed=s))
    if m.random is m2.random:
        return hx.end(hx.fail("two models share a generator"))
    return hx.end(True)


class KwModel(Model):
    """the usual user model: own parameters, everything else (seed, logger) handed to Model through **kwargs"""
    __slots__ = ['n']

    def __init__(self, n, **kwargs):
        super().__init__(**kwargs)
        self.n = n
        self.complete()


class SeedModel(Model):
    __slots__ = ['n']

    def __init__(self, n, seed=None):
        super().__init__(seed, logger=NULL_LOGGER)
        self.n = n
        self.complete()


def batch_seed(seed: int, which: int) -> bool:
    """
    pre: 0 <= which < 4
    post: _
    """
    # a batch/search worker builds its model from its parameters alone: the seed among the parameters reaches
    # random.Random unchanged - whether the model declares `seed` or takes it through **kwargs
    import ECAgent.Batching as B
    hx.begin()
    rec = _RecRandomModule()
    saved = Core.random
    Core.random = rec
    try:
        cls = KwModel if which % 2 == 0 else SeedModel
        if which < 2:
            B.batch_run(cls, {"n": [1], "seed": seed}, max_timesteps=1)
        else:
            B.grid_search(cls, {"n": [1], "seed": seed}, lambda mm: 0, max_timesteps=1)
    finally:
        Core.random = saved
    hx.reach('built')
    if len(rec.made) != 1:
        return hx.end(hx.fail("models built by the runner", got=len(rec.made)))
    g = rec.made[0]
    if not (len(g.seeded_with) == 1 and g.seeded_with[0] is seed):
        return hx.end(hx.fail("the worker's model was not seeded with the seed among its parameters", seeded_with=g.seeded_with,
                              model_class=cls.__name__))
    return hx.end(True)


class _LogSys(Core.System):
    def execute(self):
        self.model.environment.components.setdefault("log", []).append(self.id)


_SYS_IDS = ["alpha", "beta", "gamma", "delta", "epsilon"]


def system_order(p0: int, p1: int, p2: int, p3: int, p4: int, j: int, k: int) -> bool:
    """
    pre: 0 <= j < hx.P['n'] and 0 <= k < hx.P['n']
    post: _
    """
    # the order in which systems run is part of the trajectory: after removals and re-registrations it is a function of
    # priorities and registration order alone - under EVERY interpreter hash seed (each partition pins PYTHONHASHSEED
    # for its worker process; string ids hash differently under each)
    hx.begin()
    n = hx.P['n']
    m = Model(seed=1, logger=NULL_LOGGER)
    ps = [p0, p1, p2, p3, p4][:n]
    ss = [_LogSys(_SYS_IDS[i], m, priority=ps[i]) for i in range(n)]
    ref = []
    for s_ in ss:
        m.systems.add_system(s_)
        pos = len([x for x in ref if x.priority >= s_.priority])
        ref.insert(pos, s_)
    gone = hx.pick(ss, j)
    m.systems.remove_system(gone.id)
    ref = [x for x in ref if x is not gone]
    if j != k:
        gone2 = hx.pick(ss, k)
        m.systems.remove_system(gone2.id)
        ref = [x for x in ref if x is not gone2]
        m.systems.add_system(gone2)                   # re-registered: counts as newly registered
        ref.insert(len([x for x in ref if x.priority >= gone2.priority]), gone2)
        hx.reach('reregistered')
    m.execute()
    got = m.environment.components.get("log", [])
    if got != [x.id for x in ref]:
        return hx.end(hx.fail("order of systems after removal depends on something other than priority and registration order",
                              got=got, exp=[x.id for x in ref], hashseed=hx.P.get("_env")))
    return hx.end(True)


class _Walker(Core.System):
    """draws one random agent per run and logs it; may give a bystander (unrelated code) a chance to run first"""
    __slots__ = ['bystander']

    def __init__(self, id, model, priority=0):
        super().__init__(id, model, priority=priority)
        self.bystander = None

    def execute(self):
        if self.bystander is not None:
            self.bystander()
        env = self.model.environment
        a = env.get_random_agent()
        env.components.setdefault("log", []).append((self.id, self.model.systems.timestep, None if a is None else a.id))


def interleaved(p0: int, p1: int, p2: int, r0: int, r1: int, r2: int, r3: int, g0: int, g1: int, who: int) -> bool:
    """
    pre: 0 <= who < hx.P['n']
    pre: r0 >= 0 and r1 >= 0 and r2 >= 0 and r3 >= 0 and g0 >= 0 and g1 >= 0
    post: _
    """
    # 2-safety by self-composition: the same model code with the same stream run twice - once alone, once while one of
    # its systems gives unrelated code the chance to build / step ANOTHER model in between (ensemble drivers, what-if
    # side simulations).  The two trajectories (which system ran when, and what it drew) must be identical.
    hx.begin()
    n, steps, what = hx.P['n'], hx.P['steps'], hx.P['bystander']
    ps = [p0, p1, p2][:n]
    stream = [r0, r1, r2, r3, r1, r0, r3, r2]

    def build():
        m = Model(seed=1, logger=NULL_LOGGER)
        m.random = SymRandom(stream)
        for i in range(2):
            m.environment.add_agent(HA("a%d" % i, m))
        ss = [_Walker(_SYS_IDS[i], m, priority=ps[i]) for i in range(n)]
        for s_ in ss:
            m.systems.add_system(s_)
        return m, ss

    side = Model(seed=2, logger=NULL_LOGGER)
    side.random = SymRandom([g0, g1, g0, g1, g0, g1, g0, g1])
    side.environment.add_agent(HA("b0", side))       # (one agent: the side model draws, but its draws do not fork paths)
    side.systems.add_system(_Walker("side0", side, priority=3))
    side.systems.add_system(_Walker("side1", side, priority=1))

    made = []

    def bystander():
        if what == 'step':
            side.execute()
        elif what == 'build':
            fresh = Model(seed=3, logger=NULL_LOGGER)
            fresh.systems.add_system(_Walker("f0", fresh))
            fresh.environment.add_agent(HA("c0", fresh))
        else:
            made.append(len(made))
            side.systems.add_system(_Walker("late%d" % len(made), side, priority=2))
            side.execute()
            side.systems.remove_system("side1") if "side1" in side.systems.systems else None

    alone, _ = build()
    alone.execute(steps)
    busy, ss = build()
    hx.pick(ss, who).bystander = bystander
    busy.execute(steps)
    a, b = alone.environment.components.get("log", []), busy.environment.components.get("log", [])
    if len(a) == n * steps:
        hx.reach('full_trajectory')
    if a != b:
        return hx.end(hx.fail("trajectory depends on another model being built/stepped in between", alone=a, interleaved=b,
                              bystander=what, priorities=ps))
    return hx.end(alone.timestep == busy.timestep)


class _Consumer(Core.System):
    """asks the framework for a list, then consumes it destructively - legitimate: every such answer is a fresh list"""
    __slots__ = ['service']

    def execute(self):
        env, sv = self.model.environment, self.service
        if sv == 'moore':
            lst = env.get_moore_neighbours((0, 0, 0), 1, False, tuple)
        elif sv == 'neumann':
            lst = env.get_neumann_neighbours((1, 1, 0), 1, False, int)
        elif sv == 'neighbours':
            lst = env.get_neighbours((1, 0, 0), 1, True, int, 'moore')
        elif sv == 'agents':
            lst = env.get_agents()
        elif sv == 'shuffle':
            lst = env.shuffle()
        else:
            lst = env.get_agents_at(0, 0, 0)
        k = self.model.random.randrange(len(lst))
        got = lst.pop(k)
        env.components.setdefault("log", []).append(got.id if isinstance(got, Agent) else got)


def rerun(r0: int, r1: int, r2: int, g0: int) -> bool:
    """
    pre: r0 >= 0 and r1 >= 0 and r2 >= 0 and g0 >= 0
    post: _
    """
    # the same model code with the same stream, run twice in ONE process (second run of a seed, next repetition of a
    # batch, next job of a pool worker), optionally with another model of the same shape in between: identical logs
    from vf.stubs import patched_pandas
    hx.begin()
    sv, between = hx.P['service'], hx.P.get('between', False)

    def run(stream):
        m = Model(seed=1, logger=NULL_LOGGER)
        m.random = SymRandom(stream)
        env = Env.GridWorld(m, 2, 2)
        m.environment = env
        for i in range(3):
            env.add_agent(HA("a%d" % i, m), 0, 0)
        c = _Consumer("consumer", m)
        c.service = sv
        m.systems.add_system(c)
        m.execute(2)
        return env.components.get("log", [])

    with patched_pandas():
        first = run([r0, r1, r2, r0, r1, r2])
        if between:
            run([g0, g0, g0, g0, g0, g0])
        second = run([r0, r1, r2, r0, r1, r2])
    if len(first) == 2:
        hx.reach('two_steps')
    if first != second:
        return hx.end(hx.fail("second run of the same model code and stream differs from the first", first=first, second=second,
                              service=sv))
    return hx.end(True)


def query_order(h0: int, h1: int, h2: int, qx: int, qy: int, lw: int) -> bool:
    """
    pre: 0 <= h0 < 8 and 0 <= h1 < 8 and 0 <= h2 < 8
    pre: 0 <= qx <= 3 and 0 <= qy <= 3 and 0 <= lw <= 2
    post: _
    """
    # lists the framework hands to model code (which then draws from them) are part of the trajectory: the same positional
    # query answered under two different set-iteration orders / address orders gives the same list in the same order
    hx.begin()
    wrap = hx.P['wrap']

    def ask(order):
        m = Model(seed=1, logger=NULL_LOGGER)
        env = Env.SpaceWorld(m, 3, 3, 0, wrap_env=wrap)
        m.environment = env
        for i, (x, y) in enumerate(((0, 0), (3, 0), (0, 3), (1, 1))):
            a = HA("q%d" % i, m)
            a.h = order[i % 3]
            env.add_agent(a, x, y, 0)
        HavocSet.order, HavocSet._k, HavocSet.iterated = list(order), 0, 0
        with _Patch(Havoc([0, 0, 0])):
            return [a.id for a in env.get_agents_at(qx, qy, 0, leeway=lw)]
    one = ask([h0, h1, h2])
    two = ask([0, 0, 0])
    if len(one) >= 2:
        hx.reach('several_hits')
    if one != two:
        return hx.end(hx.fail("a positional query's answer depends on set-iteration / address order", first=one, second=two,
                              query=(qx, qy), leeway=lw, wrap=wrap))
    return hx.end(True)


def collector_order(h0: int, h1: int, h2: int) -> bool:
    """
    pre: 0 <= h0 < 8 and 0 <= h1 < 8 and 0 <= h2 < 8
    post: _
    """
    # the order in which a collector offers the agents to the user's per-agent function is part of the trajectory (the
    # function may draw from the model's generator): it is the same under any set-iteration / address order
    import ECAgent.Collectors as _Col
    hx.begin()

    def run(order):
        m = Model(seed=1, logger=NULL_LOGGER)
        for i in range(3):
            a = HA("r%d" % i, m)
            a.h = order[i]
            m.environment.add_agent(a)
        seen = []

        def per_agent(agent):
            seen.append(agent.id)
            return 1
        m.systems.add_system(_Col.AgentCollector(m, per_agent))
        HavocSet.order, HavocSet._k, HavocSet.iterated = list(order), 0, 0
        with _Patch(Havoc([0, 0, 0])):
            m.execute()
        return seen
    one, two = run([h0, h1, h2]), run([0, 0, 0])
    hx.reach('collected')
    if one != two or one != ["r0", "r1", "r2"]:
        return hx.end(hx.fail("the order in which a collector visits the agents depends on set-iteration / address order",
                              first=one, second=two))
    return hx.end(True)


def large_population() -> bool:
    """
    post: _
    """
    # services on a LARGE population still draw from the model's own generator only (size-dependent fast paths)
    hx.begin()
    n = hx.P['agents']
    m = Model(seed=5, logger=NULL_LOGGER)
    stream = [(i * 7919 + 13) % 100003 for i in range(n + 2)]       # a fixed stream: the model's own generator
    m.random = SymRandom(stream)
    for i in range(n):
        m.environment.add_agent(Agent("p%d" % i, m))
    hav = Havoc([0] * (2 * n + 8))
    with _Patch(hav):
        got = m.environment.shuffle()
    hx.reach('shuffled')
    exp = _fisher_yates(list(m.environment.agents.values()), stream)
    if hav.used != 0:
        return hx.end(hx.fail("a process-global generator was consulted for a large population", times=hav.used, agents=n))
    if len(m.random.draws) != n - 1 or not hx.same_seq(got, exp):
        return hx.end(hx.fail("shuffle of a large population is not the model generator's own permutation", agents=n,
                              draws=len(m.random.draws)))
    return hx.end(True)


import ECAgent.Decode as _D


class _DecModel(Model, _D.IDecodable):
    @staticmethod
    def decode(params):
        return _DecModel(seed=params["seed"], logger=NULL_LOGGER)


class _DecWalker(_Walker, _D.IDecodable):
    @staticmethod
    def decode(params):
        return _DecWalker(params["id"], params["model"], priority=params["priority"])


class _DecAgent(HA, _D.IDecodable):
    @staticmethod
    def decode(params):
        return _DecAgent("d%d" % params["agent_index"], params["model"])


class _MemoryDecoder(_D.Decoder):
    """a decoder for descriptions held in memory: open_file hands out the same dict every time"""

    def __init__(self, data):
        self.data = data

    def open_file(self, path):
        return self.data


def decoded_twice(r0: int, r1: int, g0: int, g1: int, p0: int) -> bool:
    """
    pre: r0 >= 0 and r1 >= 0 and g0 >= 0 and g1 >= 0
    post: _
    """
    # two models decoded from ONE description (the same dict object, e.g. a cached parse): each draws from its own
    # generator only, and stepping one does not touch the other
    hx.begin()
    data = {"model": {"name": "_DecModel", "module": __name__, "params": {"seed": 7}},
            "systems": [{"name": "_DecWalker", "module": __name__, "params": {"id": "walk", "priority": p0}}],
            "agents": [{"name": "_DecAgent", "module": __name__, "number": 2, "params": {}}]}
    dec = _MemoryDecoder(data)
    m1 = dec.decode("model.json")
    m2 = dec.decode("model.json")
    if m1 is m2:
        return hx.end(hx.fail("two decodes returned one model"))
    m1.random, m2.random = SymRandom([g0, g1]), SymRandom([r0, r1])
    for m in (m1, m2):
        if len(m.environment) != 2 or list(m.systems.systems) != ["walk"] or m.systems.systems["walk"].model is not m:
            return hx.end(hx.fail("a decoded model's systems / agents belong to another model"))
        for a in m.environment:
            if a.model is not m:
                return hx.end(hx.fail("a decoded model's agent belongs to another model"))
    m2.execute(2)
    hx.reach('stepped')
    if m1.random.draws != [] or m1.timestep != 0 or m1.environment.components.get("log"):
        return hx.end(hx.fail("stepping the second decoded model drew from / changed the first", first_draws=m1.random.draws))
    want = [("walk", 0, "d1" if r0 % 2 else "d0"), ("walk", 1, "d1" if r1 % 2 else "d0")]
    got = m2.environment.components.get("log", [])
    if got != want:
        return hx.end(hx.fail("trajectory of the second decoded model", got=got, exp=want))
    return hx.end(True)


BOUNDS = {"agents": "<= 3", "draws": "<= 3 from the model stream, all non-negative ints", "global-generator stream": "all non-negative ints",
          "set iteration order": "every permutation (symbolic Lehmer code, digits 0..7)", "tags": "0/1"}
OUTSIDE = ["hash seeds other than the pinned ones in `system_order` (each is decided symbolically over priorities, the seeds are enumerated)",
           "that random.Random(seed) itself is deterministic (C implementation of the Mersenne Twister)",
           "hash-order dependence through set literals/comprehensions or through third-party containers (only set()/frozenset() calls are havocked)",
           "fresh interpreter vs. batch worker process: a worker builds its model from its kwargs alone (decided in C15.serial)",
           "user systems that themselves call the global generators"]
STUBS = ["builtin id() as seen by the framework's modules returns an arbitrary (symbolic rank, stable, distinct) number per object: addresses are ambient process state",
         "system_order: PYTHONHASHSEED pinned per partition for the worker process (enumerated, not symbolic)",
         "model.random = SymRandom(stream)", "random.* and numpy.random.* entry points replaced by Havoc stubs driven by an independent symbolic stream",
         "ECAgent.Core.random replaced by a recording module (seed_plumbing only)", "set/frozenset as seen by ECAgent.Core/Environments/Batching/Collectors replaced by HavocSet: exact membership/size/algebra, arbitrary (symbolic) iteration order; set literals/comprehensions are not intercepted",
         "Model.logger replaced by a no-op logger"]
ASSUMPTIONS = ["the oracle is computed from the model's own stream and configuration only: random.Random.choice(seq) = seq[_randbelow(len(seq))], "
               "random.Random.shuffle = Fisher-Yates with _randbelow(i+1)"]


def obligations(tier):
    enc = (Environment.get_random_agent, Environment.shuffle, Environment.get_agents, Model.__init__)
    parts = []
    for service in ("pick", "shuffle"):
        parts += [{"n": 2, "world": "plain", "service": service}, {"n": 3, "world": "plain", "service": service},
                  {"n": 2, "world": "plain", "service": service, "other": True}, {"n": 2, "world": "grid", "service": service},
                  {"n": 2, "world": "plain", "service": service, "rehost": True},
                  {"n": 2, "world": "plain", "service": service, "completed": True}]
        if tier != "quick":
            parts += [{"n": 3, "world": "space", "service": service}, {"n": 3, "world": "grid", "service": service, "other": True}]
    return [
        X("draws_only_from_model", draws_only_from_model, parts=parts, labels=("real_choice",), timeout=1500, encoded=enc,
          bounds={"agents": "2..3"}),
        X("system_order", system_order, parts=[{"n": n, "_env": {"PYTHONHASHSEED": str(hs)}} for n in ((3, 4) if tier == "quick" else (3, 4, 5))
                                               for hs in ((1, 2, 3) if tier == "quick" else (1, 2, 3, 4, 5, 6))],
          labels=("reregistered",), timeout=600, group=1, encoded=(Core.SystemManager.add_system, Core.SystemManager.remove_system,
                                                                    Core.SystemManager.execute_systems),
          bounds={"systems": "3..%d with string ids" % (4 if tier == "quick" else 5), "PYTHONHASHSEED": "pinned per partition: 1..%d" % (3 if tier == "quick" else 6)}),
        X("interleaved", interleaved, parts=[{"n": 2, "steps": 2, "bystander": b} for b in ("step", "build", "restructure")] +
          ([{"n": 3, "steps": 2, "bystander": "step"}] if tier != "quick" else []),
          labels=("full_trajectory",), timeout=900, encoded=(Core.SystemManager.execute_systems, Model.execute, Environment.get_random_agent),
          bounds={"systems": "2 (3 thorough), any priorities", "timesteps": 2, "draws": "one random pick per system run, symbolic stream",
                  "unrelated code": "steps / builds / restructures another model from inside one of the systems"}),
        X("rerun", rerun, parts=[{"service": sv} for sv in ("moore", "neumann", "neighbours", "agents", "agents_at", "shuffle")] +
          [{"service": "moore", "between": True}, {"service": "agents", "between": True}],
          labels=("two_steps",), timeout=900, encoded=(Env.DiscreteWorld.get_moore_neighbours, Env.DiscreteWorld.get_neumann_neighbours,
                                                       Env.DiscreteWorld.get_neighbours, Environment.get_agents, Env.SpaceWorld.get_agents_at),
          bounds={"world": "2x2 GridWorld, 3 agents", "timesteps": 2, "list consumed": "pop(randrange(len)) on the framework's answer"}),
        X("query_order", query_order, parts=[{"wrap": True}, {"wrap": False}], labels=("several_hits",), timeout=600,
          encoded=(Env.SpaceWorld.get_agents_at,), bounds={"world": "4x4 continuous, 4 agents (three on the border)", "query": "any point, leeway 0..2"}),
        X("collector_order", collector_order, labels=("collected",), timeout=300, encoded=(Environment.get_agents,),
          bounds={"agents": 3, "set-iteration / address order": "symbolic"}),
        X("large_population", large_population, parts=[{"agents": 1500}], labels=("shuffled",), timeout=300, encoded=(Environment.shuffle, Environment.get_random_agent),
          bounds={"agents": "1500 (one concrete population: decides that no size-dependent path leaves the model's generator)"}),
        X("decoded_twice", decoded_twice, labels=("stepped",), timeout=300, encoded=(_D.Decoder.decode, Environment.get_random_agent),
          bounds={"description": "1 system, 2 agents, decoded twice from the same dict", "timesteps": 2}),
        X("batch_seed", batch_seed, labels=("built",), timeout=300,
          encoded=(Model.__init__,), bounds={"seed": "all ints", "runner": "batch_run / grid_search", "model": "seed declared / via **kwargs"}),
        X("seed_plumbing", seed_plumbing, parts=[{"positional": True}, {"positional": False}], labels=("seed_zero", "no_seed"),
          timeout=300, encoded=(Model.__init__,)),
    ]
