"""C17 - collectors record faithfully: nothing invented, altered, lost or duplicated (engine X, in-memory file)."""
import vf.hx as hx
from vf.spec import X
from vf.stubs import FakeFS, NULL_LOGGER
import ECAgent.Collectors as Col
from ECAgent.Core import Model, Agent, System


class M(Model):
    __slots__ = ['per', 'all', 'plan', 'k', 'fails']

    def __init__(self):
        super().__init__(logger=NULL_LOGGER)
        self.fails = None


def agent_collect_step(n: int, r0: bool, r1: bool, r2: bool, v0: int, v1: int, v2: int, comp: int, cv: int,
                       incl: bool, t: int, nearlier: int) -> bool:
    """
    pre: 0 <= n <= 3 and 0 <= comp < 4 and 0 <= nearlier <= 2
    post: _
    """
    hx.begin()
    m = M()
    has = [r0, r1, r2]
    vals = [v0, v1, v2]
    agents = []
    for i in range(n):
        a = Agent("a%d" % i, m)
        m.environment.add_agent(a)
        agents.append(a)
    seen = []

    def agent_func(a):
        seen.append(a)
        for i in range(n):
            if a is agents[i]:
                return vals[i] if has[i] else None
        return "stranger"

    def comp_func(d):
        if comp == 1:
            return None
        if comp == 2:
            return {}
        return {"total": cv}
    c = Col.AgentCollector(m, agent_func, None if comp == 0 else comp_func, includeTimstep=incl)
    m.systems.add_system(c)
    earlier = [{"old": 1}, {"old": 2, "x": [1, 2]}][:nearlier]
    c.records = list(earlier)
    earlier_copy = [dict(e) for e in earlier]
    m.systems.timestep = t
    c.start, c.end = t, t
    m.execute()
    exp = {}
    if incl:
        exp["timestep"] = t
    for i in range(n):
        if has[i]:
            exp["a%d" % i] = vals[i]
    if comp == 3:
        exp["total"] = cv
    if len(exp) == 0:
        hx.reach('empty_record_skipped')
    else:
        hx.reach('record_appended')
    if n > 0 and not incl and comp != 3 and len(exp) < n and len(exp) > 0:
        hx.reach('partial')
    # each resident was offered to the per-agent function exactly once, in joining order
    if not hx.same_seq(seen, agents):
        return hx.end(hx.fail("agents offered to the per-agent function", got=[a.id for a in seen]))
    want = earlier + ([exp] if len(exp) > 0 else [])
    if len(c.records) != len(want):
        return hx.end(hx.fail("number of records", got=len(c.records), exp=len(want), record=exp))
    for i in range(nearlier):
        if c.records[i] is not earlier[i] or c.records[i] != earlier_copy[i]:
            return hx.end(hx.fail("an earlier record was altered"))
    if len(exp) > 0:
        rec = c.records[-1]
        if list(rec.keys()) != list(exp.keys()):
            return hx.end(hx.fail("keys of the new record", got=list(rec.keys()), exp=list(exp.keys())))
        for k in exp:
            if not (rec[k] is exp[k] or rec[k] == exp[k]):
                return hx.end(hx.fail("value in the new record", key=k, got=rec[k], exp=exp[k]))
    return hx.end(True)


def composite_shared(incl: bool, has: bool, v0: int, v1: int, v2: int) -> bool:
    """
    post: _
    """
    # the composite function returns the SAME dict object every time and keeps updating it (running totals): records
    # already appended never change
    hx.begin()
    m = M()
    a = Agent("a0", m)
    m.environment.add_agent(a)
    totals = {}
    vals = [v0, v1, v2]
    step = [0]

    def comp(agents):
        totals["total"] = vals[step[0]]
        return totals
    c = Col.AgentCollector(m, (lambda ag: 1) if has else (lambda ag: None), comp, includeTimstep=incl)
    m.systems.add_system(c)
    expected = []
    for k in range(3):
        step[0] = k
        m.execute()
        rec = {}
        if incl:
            rec["timestep"] = k
        if has:
            rec["a0"] = 1
        rec["total"] = vals[k]
        expected.append(rec)
        if len(c.records) != k + 1:
            return hx.end(hx.fail("number of records", got=len(c.records), exp=k + 1))
        for i in range(k + 1):
            if c.records[i] != expected[i]:
                return hx.end(hx.fail("an earlier record was altered by a later collection", index=i, got=c.records[i],
                                      exp=expected[i], after_step=k))
    if not incl and not has:
        hx.reach('record_is_only_composite')
    hx.reach('done')
    return hx.end(True)


class CallbackError(Exception):
    pass


def agent_callback_fails(fail_at: int, leaver: int, v0: int, v1: int, v2: int, w0: int, w1: int, w2: int, where: int,
                         q0: bool, q1: bool, q2: bool) -> bool:
    """
    pre: 0 <= fail_at < 3 and 0 <= leaver <= 3 and 0 <= where < 2
    post: _
    """
    # a user callback raises in the middle of one collection (the driver loop handles the error and carries on), the
    # population changes, the next collection takes place: its record holds exactly the results of THAT collection
    hx.begin()
    m = M()
    agents = []
    for i in range(3):
        a = Agent("a%d" % i, m)
        m.environment.add_agent(a)
        agents.append(a)
    step = [0]
    first, second, quiet = [v0, v1, v2], [w0, w1, w2], [q0, q1, q2]

    def agent_func(a):
        for i in range(3):
            if a is agents[i]:
                if step[0] == 0:
                    if where == 0 and i == fail_at:
                        raise CallbackError("per-agent function failed for a%d" % i)
                    return first[i]
                return None if quiet[i] else second[i]          # (an agent may have nothing to report the second time)
        return "stranger"

    def comp_func(d):
        if step[0] == 0 and where == 1:
            raise CallbackError("composite function failed")
        return {"total": 7}
    c = Col.AgentCollector(m, agent_func, comp_func)
    m.systems.add_system(c)
    try:
        m.execute()
        return hx.end(hx.fail("the callback's error did not reach the caller"))
    except CallbackError:
        hx.reach('callback_failed')
    n_after_failure = len(c.records)
    m.systems.timestep = 1           # (the error left execute() early: the driver advances the clock itself)
    step[0] = 1
    present = list(agents)
    if leaver < 3:
        gone = hx.pick(agents, leaver)
        m.environment.remove_agent(gone.id)
        present = [a for a in agents if a is not gone]
        hx.reach('one_left')
    m.execute()
    exp = {}
    for i in range(3):
        if agents[i] in present and not quiet[i]:
            exp["a%d" % i] = second[i]
    exp["total"] = 7
    if len(c.records) != n_after_failure + 1:
        return hx.end(hx.fail("number of records after the next collection", got=len(c.records), before=n_after_failure))
    rec = c.records[-1]
    if list(rec.keys()) != list(exp.keys()):
        return hx.end(hx.fail("record after a failed collection holds other entries than that collection's", got=list(rec.keys()),
                              exp=list(exp.keys())))
    for k in exp:
        if rec[k] != exp[k]:
            return hx.end(hx.fail("value in the record after a failed collection", key=k, got=rec[k], exp=exp[k]))
    return hx.end(True)


class Swapper(System):
    """at timestep `when` replaces the model's agent collector by a fresh one registered under the same (default) id"""
    __slots__ = ['when', 'old', 'new']

    def execute(self):
        if self.model.systems.timestep == self.when:
            self.model.systems.remove_system(self.old.id)
            self.model.systems.add_system(self.new)


def collector_swapped(t0: int, when: int, v: int) -> bool:
    """
    pre: 0 <= when < 3
    post: _
    """
    # what is collected changes when a new phase starts: a higher-priority system swaps the collector mid-timestep for a
    # replacement with the same id.  The old collector holds records for the timesteps before the swap only ("nothing
    # invented"), the new one from the swap on.
    hx.begin()
    m = M()
    a = Agent("a0", m)
    m.environment.add_agent(a)
    m.systems.timestep = t0
    old = Col.AgentCollector(m, lambda ag: v, includeTimstep=True, start=t0, end=t0 + 1000)
    new = Col.AgentCollector(m, lambda ag: v + 1, includeTimstep=True, start=t0, end=t0 + 1000)
    sw = Swapper("swapper", m, priority=5, start=t0, end=t0 + 1000)
    sw.when, sw.old, sw.new = t0 + when, old, new
    m.systems.add_system(old)
    m.systems.add_system(sw)
    m.execute(3)
    exp_old = [{"timestep": t0 + k, "a0": v} for k in range(when)]
    exp_new = [{"timestep": t0 + k, "a0": v + 1} for k in range(when, 3)]
    exp_new_later = exp_new[1:]      # (whether a system registered mid-timestep already runs in that timestep is left open)
    if when > 0:
        hx.reach('old_collected')
    if old.records != exp_old:
        return hx.end(hx.fail("records of the collector that was removed before its turn", got=old.records, exp=exp_old))
    if new.records != exp_new and new.records != exp_new_later:
        return hx.end(hx.fail("records of the replacement collector", got=new.records, exp=exp_new, or_from_next_timestep=exp_new_later))
    return hx.end(True)


class Churn(System):
    """priority-0 system that changes the population according to a plan {timestep offset: (+1 | -1)}; optionally it
    first replaces the model's environment by a fresh one (carrying the residents over) at step `swap_at`"""
    swap_at = None

    def execute(self):
        m = self.model
        k = m.k                      # concrete step counter kept by the harness
        if Churn.swap_at is not None and k == Churn.swap_at:
            from ECAgent.Core import Environment
            old = m.environment
            new = Environment(m, id="NEW")
            for aid in list(old.agents):
                ag = old.agents[aid]
                old.remove_agent(aid)
                new.add_agent(ag)
            m.set_environment(new)
        if 0 <= k < len(m.plan):
            if m.plan[k] > 0:
                a = Agent("n%d" % k, m)
                m.environment.add_agent(a)
            elif m.plan[k] < 0 and len(m.environment.agents) > 0:
                m.environment.remove_agent(list(m.environment.agents)[0])


class Retire(System):
    """a one-shot set-up system that deregisters itself when it has run"""

    def execute(self):
        self.clean_up()


def agent_collect_window(start: int, end: int, t0: int, d0: int, d1: int, d2: int, d3: int) -> bool:
    """
    pre: -1 <= d0 <= 1 and -1 <= d1 <= 1 and -1 <= d2 <= 1 and -1 <= d3 <= 1
    post: _
    """
    hx.begin()
    f, steps = hx.P['f'], hx.P['steps']
    Churn.swap_at = hx.P.get('swap_at')
    m = M()
    m.per = t0
    m.plan = [d0, d1, d2, d3][:steps]
    m.systems.timestep = t0
    churn = Churn("churn", m)                                     # default priority 0
    churn.start, churn.end = t0, t0 + 1000                       # due at every (arbitrary) timestep of the run
    c = Col.AgentCollector(m, lambda a: 1, includeTimstep=True, frequency=f, start=start, end=end)   # default priority -1
    if hx.P.get('retire'):
        # registered first, highest priority, retires itself in the first timestep: the others keep their relative order
        setup = Retire("setup", m, priority=10)
        setup.start, setup.end = t0, t0 + 1000
        m.systems.add_system(setup)
    if hx.P.get('collector_first'):       # the order of registration does not matter: defaults put collectors last
        m.systems.add_system(c)
        m.systems.add_system(churn)
    else:
        m.systems.add_system(churn)
        m.systems.add_system(c)
    pop = []
    exp = []
    for k in range(steps):
        t = t0 + k
        m.k = k
        if m.plan[k] > 0:
            pop.append("n%d" % k)
        elif m.plan[k] < 0 and len(pop) > 0:
            pop.pop(0)
        # with default settings the collector observes the state left by that timestep's systems
        if start <= t <= end and (t - start) % f == 0:
            rec = {"timestep": t}
            for p in pop:
                rec[p] = 1
            exp.append(rec)
        m.execute()
    if len(exp) > 0 and len(exp) < steps:
        hx.reach('some_scheduled')
    if c.records != exp:
        return hx.end(hx.fail("records over a window with a changing population", got=c.records, exp=exp))
    return hx.end(True)


class FC(Col.FileCollector):
    custom_writer = False

    def write_records(self):
        # the documented extension point: a subclass may write its records in its own way, without calling super()
        if not FC.custom_writer:
            return Col.FileCollector.write_records(self)
        f = Col.open(self.filename, self.filemode)
        for r in self.records:
            f.write(r)
        f.close()

    def collect(self):
        m = self.model
        k = m.k                      # concrete step counter kept by the harness
        if getattr(m, "fails", None) is not None and m.fails[k]:
            raise CallbackError("collect() failed before collecting anything")
        for j in range(m.per[k]):
            r = "t%d.%d;" % (k, j)
            self.records.append(r)
            m.all.append(r)


def file_conservation(wc: int, c0: int, c1: int, c2: int, c3: int, c4: int, c5: int, c6: int, t0: int) -> bool:
    """
    pre: wc >= 0
    pre: 0 <= c0 <= 2 and 0 <= c1 <= 2 and 0 <= c2 <= 2 and 0 <= c3 <= 2 and 0 <= c4 <= 2 and 0 <= c5 <= 2 and 0 <= c6 <= 2
    post: _
    """
    hx.begin()
    steps = hx.P['steps']
    fs = FakeFS()
    Col.open = fs.open
    FC.custom_writer = bool(hx.P.get('custom_writer'))
    try:
        m = M()
        m.per = [c0, c1, c2, c3, c4, c5, c6]
        if 'c01' in hx.P:                 # first two counts chosen by the partition (splits the work across cores)
            m.per[0], m.per[1] = hx.P['c01']
        m.all = []
        m.plan = t0
        m.systems.timestep = t0
        fc = FC("f", m, "out.txt", write_count=wc)
        fc.start, fc.end = t0, t0 + 1000     # due at every (arbitrary) timestep of the run
        m.systems.add_system(fc)
        flushes = 0
        for step in range(steps):
            m.k = step
            before = list(fs.files.get("out.txt", []))
            m.execute()
            # stopping the run after ANY timestep: written ++ held == everything collected so far, in order
            written = fs.files.get("out.txt", [])
            if written + fc.records != m.all:
                return hx.end(hx.fail("written ++ held != collected", step=step, written=written, held=fc.records,
                                      collected=m.all, write_count=wc))
            due = (step + 1) % (wc + 1) == 0        # a flush after every (write_count + 1)-th collection
            if due:
                flushes += 1
                if len(fc.records) != 0:
                    return hx.end(hx.fail("records still held after a due flush", step=step, write_count=wc))
            elif written != before:
                return hx.end(hx.fail("file changed although no flush was due", step=step, write_count=wc))
        if flushes >= 2:
            hx.reach('two_flushes')
        if flushes == 0:
            hx.reach('never_flushed')
        return hx.end(True)
    finally:
        del Col.open


def file_open_fails(wc: int, fail_at: int, c0: int, c1: int, c2: int, c3: int) -> bool:
    """
    pre: 0 <= wc <= 2
    pre: 0 <= fail_at < 4
    pre: 0 <= c0 <= 1 and 0 <= c1 <= 1 and 0 <= c2 <= 1 and 0 <= c3 <= 1
    post: _
    """
    # fault injection: opening the file fails (OSError) at the fail_at-th due flush; the run continues.  Nothing may be
    # lost or duplicated: written ++ held == collected after every step, whatever happens to the error
    hx.begin()
    fs = FakeFS()
    opens = [0]

    def flaky_open(name, mode='r', *a, **k):
        opens[0] += 1
        if opens[0] - 1 == fail_at:
            raise OSError("disk not ready")
        return fs.open(name, mode, *a, **k)
    Col.open = flaky_open
    try:
        m = M()
        m.per = [c0, c1, c2, c3, 1, 1]
        m.all = []
        m.systems.timestep = 0
        fc = FC("f", m, "out.txt", write_count=wc)
        m.systems.add_system(fc)
        failed = False
        for step in range(6):
            m.k = step
            try:
                m.execute()
            except OSError:
                failed = True
                hx.reach('open_failed')
                # the error reached the caller inside execute(): the timestep did not complete; advance the clock by hand
                m.systems.timestep = step + 1
            written = fs.files.get("out.txt", [])
            if written + fc.records != m.all:
                return hx.end(hx.fail("records lost or duplicated around a failed open()", step=step, written=written,
                                      held=fc.records, collected=m.all, write_count=wc, failed_open_number=fail_at))
        return hx.end(True)
    finally:
        del Col.open


def file_collect_fails(wc: int, f0: bool, f1: bool, f2: bool, f3: bool, f4: bool) -> bool:
    """
    pre: 0 <= wc <= 2
    post: _
    """
    # collect() - the documented extension point - raises in some timesteps before collecting anything (the driver loop
    # handles it): the flush cadence counts COLLECTIONS, i.e. a flush after every (write_count+1)-th successful one
    hx.begin()
    steps = hx.P['steps']
    fs = FakeFS()
    Col.open = fs.open
    try:
        m = M()
        m.per = [1] * 8
        m.fails = [f0, f1, f2, f3, f4, False, False, False]
        m.all = []
        m.systems.timestep = 0
        fc = FC("f", m, "out.txt", write_count=wc)
        m.systems.add_system(fc)
        ncol = 0
        for step in range(steps):
            m.k = step
            before = list(fs.files.get("out.txt", []))
            try:
                m.execute()
                ok = True
            except CallbackError:
                ok = False
                hx.reach('collect_failed')
                m.systems.timestep = step + 1
            written = fs.files.get("out.txt", [])
            if written + fc.records != m.all:
                return hx.end(hx.fail("written ++ held != collected", step=step, written=written, held=fc.records))
            if ok:
                ncol += 1
                if ncol % (wc + 1) == 0:
                    if fc.records:
                        return hx.end(hx.fail("no flush after the (write_count+1)-th collection", step=step, write_count=wc,
                                              collections=ncol))
                    if ncol < step + 1:
                        hx.reach('flush_after_failures')
                elif written != before:
                    return hx.end(hx.fail("flushed before (write_count+1) collections were made", step=step, write_count=wc,
                                          collections=ncol, failed_steps=[i for i in range(step + 1) if m.fails[i]]))
            elif written != before:
                return hx.end(hx.fail("file changed in a timestep whose collection failed", step=step))
        return hx.end(True)
    finally:
        del Col.open


def file_window(wc: int, start: int, t0: int) -> bool:
    """
    pre: 0 <= wc <= 2
    post: _
    """
    # with a collector window the count is of collections, not of timesteps
    hx.begin()
    f, steps = hx.P['f'], hx.P['steps']
    fs = FakeFS()
    Col.open = fs.open
    try:
        m = M()
        m.per = [1] * 64
        m.all = []
        m.plan = t0
        m.systems.timestep = t0
        fc = FC("f", m, "out.txt", write_count=wc, frequency=f, start=start)
        fc.end = t0 + 1000                    # (the default end, sys.maxsize, is C02's subject)
        m.systems.add_system(fc)
        ncol = 0
        for step in range(steps):
            t = t0 + step
            m.k = step
            before = list(fs.files.get("out.txt", []))
            m.execute()
            written = fs.files.get("out.txt", [])
            if written + fc.records != m.all:
                return hx.end(hx.fail("written ++ held != collected", step=step))
            if start <= t and (t - start) % f == 0:
                ncol += 1
                if ncol % (wc + 1) == 0:
                    hx.reach('flush_on_collection_count')
                    if fc.records:
                        return hx.end(hx.fail("no flush after the (write_count+1)-th collection", step=step))
                elif written != before:
                    return hx.end(hx.fail("flushed early", step=step))
            elif written != before:
                return hx.end(hx.fail("file changed in a timestep without a collection", step=step))
        return hx.end(len(m.all) == ncol)
    finally:
        del Col.open


BOUNDS = {"quick": {"agents": "<= 3", "steps": "<= 5 (file), <= 3 (window)", "records per collection": "0..2", "write_count": "all ints >= 0",
                    "timestep": "all ints"},
          "thorough": {"agents": "<= 3", "steps": "<= 7 (file), <= 4 (window)", "records per collection": "0..2", "write_count": "all ints >= 0"}}
OUTSIDE = ["clear_records_on_write=False (append mode then re-writes old records by construction)", "a real file system; a crash in the middle of write_records",
           "agent ids that collide with the keys 'timestep' or a composite key"]
STUBS = ["fault injection: open() raises OSError at a chosen flush (file_open_fails)",
         "ECAgent.Collectors.open replaced by an in-memory file system (append keeps, 'w' truncates, write appends in order)",
         "Model.logger replaced by a no-op logger"]
ASSUMPTIONS = ["records written by the test FileCollector are self-identifying strings"]


def obligations(tier):
    steps = 5 if tier == "quick" else 7
    return [
        X("agent_collect_step", agent_collect_step, labels=("empty_record_skipped", "record_appended", "partial"), timeout=1200,
          encoded=(Col.AgentCollector.collect, Col.Collector.execute, Col.AgentCollector.__init__)),
        X("composite_shared", composite_shared, labels=("record_is_only_composite", "done"), timeout=600,
          encoded=(Col.AgentCollector.collect,)),
        X("file_open_fails", file_open_fails, labels=("open_failed",), timeout=900,
          encoded=(Col.FileCollector.execute, Col.FileCollector.write_records),
          bounds={"write_count": "0..2", "steps": 6, "failing open": "any of the first four"}),
        X("collector_swapped", collector_swapped, labels=("old_collected",), timeout=300, encoded=(Col.AgentCollector.collect, Col.Collector.execute),
          bounds={"timesteps": 3, "swap": "at any of them, by a priority-5 system"}),
        X("agent_callback_fails", agent_callback_fails, labels=("callback_failed", "one_left"), timeout=900,
          encoded=(Col.AgentCollector.collect, Col.Collector.execute),
          bounds={"agents": 3, "failing callback": "per-agent function at any agent / composite function", "then": "any one agent (or none) leaves, any agent may report nothing"}),
        X("file_collect_fails", file_collect_fails, parts=[{"steps": 5 if tier == "quick" else 6}], labels=("collect_failed", "flush_after_failures"),
          timeout=900, encoded=(Col.FileCollector.execute,), bounds={"write_count": "0..2", "failing collections": "any subset of the first five timesteps"}),
        X("agent_collect_window", agent_collect_window,
          parts=[{"f": f, "steps": s} for f, s in (((1, 3), (2, 3)) if tier == "quick" else ((1, 3), (2, 3), (2, 4), (3, 4)))] +
          [{"f": 1, "steps": 3, "swap_at": 1}, {"f": 1, "steps": 3, "collector_first": True}, {"f": 1, "steps": 3, "retire": True}],
          labels=("some_scheduled",), timeout=1200, encoded=(Col.AgentCollector.collect, Col.Collector.__init__)),
        X("file_conservation", file_conservation, parts=[{"steps": steps, "c01": [a, b]} for a in range(3) for b in range(3)] + [{"steps": 4, "c01": [1, 2], "custom_writer": True}],
          labels=("two_flushes", "never_flushed"),
          timeout=1200, encoded=(Col.FileCollector.execute, Col.FileCollector.write_records, Col.FileCollector.__init__)),
        X("file_window", file_window, parts=[{"f": 2, "steps": 4 if tier == "quick" else 6}, {"f": 3, "steps": 4 if tier == "quick" else 7}],
          labels=("flush_on_collection_count",), timeout=1200, encoded=(Col.FileCollector.execute,)),
    ]
