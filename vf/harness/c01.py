"""C01 - systems run in descending priority, registration order among equals (engine X).

Invariant I1: execution_queue is sorted by (-priority, registration number), no duplicates; `systems` maps exactly the
ids of the queue entries to those entries (in registration order of the dict).
"""
import vf.hx as hx
from vf.spec import X
from ECAgent.Core import Model, System, SystemManager, SystemNotFoundError
from ECAgent.Collectors import Collector


class LogModel(Model):
    __slots__ = ['log']

    def __init__(self):
        super().__init__()
        self.log = []


class S(System):
    def execute(self):
        self.model.log.append(self.id)


class C(Collector):
    """a collector that reports how many records it holds: container-like, and FALSY as long as it holds none"""

    def collect(self):
        self.model.log.append(self.id)

    def __len__(self):
        return len(self.records)


class SysId(str):
    """an identifier that is a string without being exactly `str`, printing differently from its value"""

    def __str__(self):
        return "SysId<%s>" % str.__str__(self)


import enum
EnumId = enum.Enum("EnumId", {k: k for k in ("s0", "s1", "s2", "s3", "s4", "s5", "new")}, type=str)


def _id(name):
    """the identifier `name` in the identifier type of the partition: str (default), a str subclass, a str-valued enum member"""
    t = hx.P.get('idtype', 'str')
    return name if t == 'str' else (SysId(name) if t == 'strsub' else EnumId(name))


def _same_registry(d, exp_items):
    items = list(d.items())
    if len(items) != len(exp_items):
        return False
    for (k, v), (ek, ev) in zip(items, exp_items):
        if k != ek or v is not ev:
            return False
    return True


def _prestate(m, n, ps):
    """An arbitrary I1 state with n entries, built directly (not through the API)."""
    q = []
    for i in range(n):
        s = (C if i % 2 else S)(_id("s%d" % i), m, priority=ps[i])
        q.append(s)
        m.systems.systems[s.id] = s
    m.systems.execution_queue[:] = q          # (in place: the list object is the scheduler's own)
    return q


def add_step(p0: int, p1: int, p2: int, p3: int, p4: int, p5: int, p: int, j: int) -> bool:
    """
    pre: p0 >= p1 >= p2 >= p3 >= p4 >= p5
    pre: -1 <= j < hx.P['n']
    post: _
    """
    hx.begin()
    n, kind = hx.P['n'], hx.P['kind']
    m = LogModel()
    ps = [p0, p1, p2, p3, p4, p5]
    q = _prestate(m, n, ps)
    new_id = _id("new" if j < 0 else "s%d" % j)
    if kind == 'sys':
        new = S(new_id, m, priority=p)
    elif kind == 'col':
        new = C(new_id, m, priority=p)
    elif kind == 'sys_default':
        new = S(new_id, m)
        p = 0
    else:
        new = C(new_id, m)
        p = -1
    snap_q = list(q)
    snap_d = list(m.systems.systems.items())
    raised = None
    try:
        if hx.P.get('alias'):
            import warnings
            warnings.simplefilter("ignore")
            m.systems.addSystem(new)           # deprecated alias of add_system
        else:
            m.systems.add_system(new)
    except KeyError:
        raised = 'KeyError'
    out = m.systems.execution_queue
    if j >= 0:
        hx.reach('collide')
        ok = raised == 'KeyError' and hx.same_seq(out, snap_q) and _same_registry(m.systems.systems, snap_d)
        if not ok:
            return hx.end(hx.fail("rejected registration changed state", queue=[s.id for s in out], raised=raised))
        exp = snap_q
    else:
        hx.reach('insert')
        k = 0
        for i in range(n):
            if ps[i] >= p:
                k += 1
        exp = snap_q[:k] + [new] + snap_q[k:]
        if raised is not None or new.priority != p:
            return hx.end(hx.fail("fresh registration rejected or priority wrong", raised=raised))
        if not hx.same_seq(out, exp):
            return hx.end(hx.fail("queue order", got=[(s.id, s.priority) for s in out],
                                  exp=[(s.id, s.priority) for s in exp]))
        if not _same_registry(m.systems.systems, snap_d + [(new_id, new)]):
            return hx.end(hx.fail("registry", got=list(m.systems.systems)))
    # observable effect: one timestep runs the systems in exactly that order
    if hx.P.get('alias'):
        m.systems.executeSystems()             # deprecated alias of execute_systems
    else:
        m.execute()
    if m.log != [s.id for s in exp]:
        return hx.end(hx.fail("execution order", got=m.log, exp=[s.id for s in exp]))
    return hx.end(True)


def remove_step(p0: int, p1: int, p2: int, p3: int, p4: int, p5: int, j: int) -> bool:
    """
    pre: p0 >= p1 >= p2 >= p3 >= p4 >= p5
    pre: -1 <= j < hx.P['n']
    post: _
    """
    hx.begin()
    n = hx.P['n']
    m = LogModel()
    q = _prestate(m, n, [p0, p1, p2, p3, p4, p5])
    snap_q = list(q)
    snap_d = list(m.systems.systems.items())
    rid = "ghost" if j < 0 else "s%d" % j
    raised = None
    try:
        if hx.P.get('alias'):
            import warnings
            warnings.simplefilter("ignore")
            m.systems.removeSystem(rid)        # deprecated alias of remove_system
        else:
            m.systems.remove_system(rid)
    except SystemNotFoundError:
        raised = 'SystemNotFoundError'
    out = m.systems.execution_queue
    if j < 0:
        hx.reach('unknown')
        if raised != 'SystemNotFoundError' or not hx.same_seq(out, snap_q) or \
                not _same_registry(m.systems.systems, snap_d):
            return hx.end(hx.fail("rejected removal changed state", raised=raised, queue=[s.id for s in out]))
        exp = snap_q
    else:
        hx.reach('remove')
        exp = [s for i, s in enumerate(snap_q) if i != j]
        if raised is not None or not hx.same_seq(out, exp):
            return hx.end(hx.fail("queue after removal", raised=raised, got=[s.id for s in out], exp=[s.id for s in exp]))
        if not _same_registry(m.systems.systems, [kv for i, kv in enumerate(snap_d) if i != j]):
            return hx.end(hx.fail("registry after removal", got=list(m.systems.systems)))
    m.execute()
    if m.log != [s.id for s in exp]:
        return hx.end(hx.fail("execution order", got=m.log, exp=[s.id for s in exp]))
    return hx.end(True)


def exec_order(p0: int, p1: int, p2: int, p3: int, s0: int, e0: int, f0: int, s1: int, e1: int, f1: int,
               s2: int, e2: int, f2: int, s3: int, e3: int, f3: int, t: int) -> bool:
    """
    pre: p0 >= p1 >= p2 >= p3
    pre: f0 >= 1 and f1 >= 1 and f2 >= 1 and f3 >= 1
    post: _
    """
    hx.begin()
    n = hx.P['n']
    m = LogModel()
    q = _prestate(m, n, [p0, p1, p2, p3])
    win = [(s0, e0, f0), (s1, e1, f1), (s2, e2, f2), (s3, e3, f3)]
    for i, s in enumerate(q):
        s.start, s.end, s.frequency = win[i]
    m.systems.timestep = t
    m.systems.execute_systems()
    exp = []
    for i, s in enumerate(q):
        st, en, fr = win[i]
        if st <= t <= en and (t - st) % fr == 0:
            exp.append(s.id)
    if len(exp) >= 2:
        hx.reach('two_ran')
    if len(exp) < n:
        hx.reach('one_skipped')
    if n == 0:
        hx.reach('two_ran'); hx.reach('one_skipped')
    if m.log != exp:
        return hx.end(hx.fail("systems that ran / their order", got=m.log, exp=exp))
    return hx.end(m.systems.timestep == t + 1)


# ordering also holds in a timestep during which a system replaces another one (same id, new object, any priority)
from vf.harness.c05 import midstep     # noqa: E402  (the C05 harness also checks descending priority of everything that ran)


def _pool(m):
    # pool of system objects: three distinct ids, a second object colliding with "a", a collector
    return [S("a", m), S("b", m), C("c", m), S("a", m)]


def history(i0: int, q0: int, i1: int, q1: int, i2: int, q2: int, i3: int, q3: int, i4: int, q4: int) -> bool:
    """
    pre: 0 <= i0 < 4 and 0 <= i1 < 4 and 0 <= i2 < 4 and 0 <= i3 < 4 and 0 <= i4 < 4
    post: _
    """
    hx.begin()
    ops = hx.P['ops']            # string over a(dd) r(emove) t(imestep)
    m = LogModel()
    pool = _pool(m)
    late = hx.P.get('late_start')        # one system of the pool only starts at timestep 2 (registered long before it is due)
    if late is not None:
        pool[late].start = 2
    idx = [i0, i1, i2, i3, i4]
    if 'idx' in hx.P:                  # targeted histories fix which systems are used; the solver chooses the priorities
        idx = list(hx.P['idx']) + [0] * 5
    pr = [q0, q1, q2, q3, q4, q2, q3, q4]
    ref = []                     # reference model: registered systems in execution order
    for k, op in enumerate(ops):
        obj = pool[idx[k]]
        if op == 'a':
            taken = False
            for s in ref:
                if s.id == obj.id:
                    taken = True
            if taken:
                hx.reach('add_rejected')
                before = list(m.systems.execution_queue)
                try:
                    m.systems.add_system(obj)
                    return hx.end(hx.fail("duplicate id accepted", step=k))
                except KeyError:
                    pass
                if not hx.same_seq(m.systems.execution_queue, before):
                    return hx.end(hx.fail("rejected add changed queue", step=k))
            else:
                hx.reach('added')
                if len(ref) >= 2:
                    hx.reach('add_third')
                obj.priority = pr[k]            # fixed at registration time
                m.systems.add_system(obj)
                pos = 0
                for s in ref:
                    if s.priority >= pr[k]:
                        pos += 1
                ref.insert(pos, obj)
        elif op == 'c':
            # the system un-registers itself with its documented clean_up() method (only when it is registered)
            reg = False
            for s in ref:
                if s is obj:
                    reg = True
            if not reg:
                return hx.end(True)
            hx.reach('removed')
            obj.clean_up()
            ref = [s for s in ref if s is not obj]
        elif op == 'r':
            present = False
            for s in ref:
                if s is obj:
                    present = True
            known_id = False
            for s in ref:
                if s.id == obj.id:
                    known_id = True
            if known_id:
                hx.reach('removed')
                m.systems.remove_system(obj.id)
                ref = [s for s in ref if s.id != obj.id]
            else:
                hx.reach('remove_rejected')
                try:
                    m.systems.remove_system(obj.id)
                    return hx.end(hx.fail("unknown id removed", step=k))
                except SystemNotFoundError:
                    pass
        else:
            del m.log[:]
            t_now = m.systems.timestep
            m.execute()
            due = [s.id for s in ref if s.start <= t_now]
            if m.log != due:
                return hx.end(hx.fail("timestep order", step=k, timestep=t_now, got=list(m.log), exp=due))
        if late is None and not hx.same_seq(m.systems.execution_queue, ref):
            return hx.end(hx.fail("queue differs from reference model", step=k,
                                  got=[(s.id, s.priority) for s in m.systems.execution_queue],
                                  exp=[(s.id, s.priority) for s in ref]))
        if sorted(m.systems.systems) != sorted(s.id for s in ref):
            return hx.end(hx.fail("registry differs from reference model", step=k))
    del m.log[:]
    t_now = m.systems.timestep
    m.execute()
    if m.log != [s.id for s in ref if s.start <= t_now]:
        return hx.end(hx.fail("final timestep order", timestep=t_now, got=list(m.log), exp=[s.id for s in ref if s.start <= t_now]))
    return hx.end(True)


def _hist_labels(part):
    if "late_start" in part:
        return ["added"]
    ops = part["ops"]
    na = ops.count('a')
    out = []
    if na >= 2:
        out.append("add_rejected")
    if na >= 3:
        out.append("add_third")
    if 'c' in ops:
        out.append("removed")
    if 'r' in ops:
        out.append("remove_rejected")
        if 'a' in ops[:ops.rindex('r')]:
            out.append("removed")
    if not out:
        out.append("added")
    return out


def _histories(k):
    import itertools
    out = []
    for n in range(1, k + 1):
        for t in itertools.product("art", repeat=n):
            s = "".join(t)
            # prune sequences that cannot exercise ordering: need an add; drop trailing timestep (always appended)
            if 'a' not in s or s.endswith('t'):
                continue
            if n < k and n < 3:
                continue
            out.append({"ops": s})
    return out


# longer histories aimed at state that can go stale: a timestep, then changes that keep the number of systems, then a
# timestep; removal and re-registration of the same object among equal priorities
_TARGETED = [{"ops": "atra", "idx": [0, 0, 0, 1]}, {"ops": "atra", "idx": [0, 0, 0, 0]}, {"ops": "aatra", "idx": [0, 1, 0, 1, 1]},
             {"ops": "aarat", "idx": [0, 1, 1, 1, 0]}, {"ops": "aatra", "idx": [1, 2, 0, 2, 0]}, {"ops": "atrat", "idx": [2, 0, 2, 3, 0]},
             {"ops": "aattt", "idx": [0, 1, 0, 0, 0], "late_start": 0}, {"ops": "aatrtat", "idx": [1, 0, 0, 1, 0, 1, 0], "late_start": 0},
             {"ops": "aaca", "idx": [0, 1, 0, 0]}, {"ops": "aacat", "idx": [0, 1, 0, 0, 0]}, {"ops": "aaaca", "idx": [0, 1, 2, 1, 1]}]
ENC_ADD = (SystemManager.add_system,)
BOUNDS = {
    "quick": {"queue_length_prestate": "<= 5", "history_length": "<= 3", "priorities": "unbounded int",
              "windows,timestep": "unbounded int, frequency >= 1"},
    "thorough": {"queue_length_prestate": "<= 6", "history_length": "<= 4", "priorities": "unbounded int",
                 "windows,timestep": "unbounded int, frequency >= 1"},
}
OUTSIDE = ["queues longer than the bound (the step is uniform in n but that is not proved)",
           "priorities mutated while registered (excluded by the property)",
           "system ids that are not str"]
STUBS = []
ASSUMPTIONS = ["pre-states are arbitrary states satisfying I1 (sorted by priority, ids unique, registry == queue)",
               "test systems log their id in execute(); collectors in collect()"]


def obligations(tier):
    N = 5 if tier == "quick" else 6
    kinds = ['sys', 'col', 'sys_default', 'col_default']
    obs = [
        X("add_step", add_step, parts=[{"n": n, "kind": k} for n in range(N + 1) for k in kinds if not (n < N and k == 'col' and n % 2)] +
          [{"n": 3, "kind": "sys", "alias": True}, {"n": 2, "kind": "sys", "idtype": "strsub"}, {"n": 3, "kind": "col", "idtype": "enum"}],
          labels=("insert", "collide"), labels_for=lambda p: ("insert", "collide") if p["n"] else ("insert",),
          timeout=120, group=4,
          encoded=(SystemManager.add_system, SystemManager.execute_systems, System.__init__, Collector.__init__, Collector.execute),
          bounds={"n": "0..%d" % N, "priorities": "all ints", "collision index": "any entry or fresh"}),
        X("remove_step", remove_step, parts=[{"n": n} for n in range(N + 1)] + [{"n": 3, "alias": True}], labels=("remove", "unknown"),
          timeout=120, group=2, encoded=(SystemManager.remove_system, SystemManager.execute_systems),
          bounds={"n": "0..%d" % N}),
        X("exec_order", exec_order, parts=[{"n": n} for n in range(0, (3 if tier == "quick" else 4) + 1)],
          labels=("two_ran", "one_skipped"), timeout=300, encoded=(SystemManager.execute_systems,),
          bounds={"n": "0..%d" % (3 if tier == "quick" else 4), "start,end,frequency,timestep": "all ints, f>=1"}),
        X("midstep_order", midstep, parts=[{"n": 2, "kinds": ["replace"]}, {"n": 3, "kinds": ["replace"]}, {"n": 2, "kinds": ["add"]},
                                                {"n": 2, "kinds": ["add", "add"]}],
          labels=("removed", "added"), labels_for=lambda p: ("added",), timeout=600,
          encoded=(SystemManager.execute_systems, SystemManager.add_system, SystemManager.remove_system),
          bounds={"systems": "2..3, one mid-timestep replacement / one or two mid-timestep registrations with any priorities"}),
        X("history", history, parts=_histories(3 if tier == "quick" else 4) + _TARGETED,
          labels=("add_rejected", "add_third", "removed", "remove_rejected", "added"), labels_for=_hist_labels,
          timeout=300, group=2,
          encoded=(SystemManager.add_system, SystemManager.remove_system, SystemManager.execute_systems, Model.execute),
          bounds={"history": "<= %d operations over a pool of 4 systems (one colliding id, one collector)" % (3 if tier == "quick" else 4)}),
    ]
    return obs
