"""C06 - completion is immediate and final: nothing runs after complete() (engine X)."""
import vf.hx as hx
from vf.spec import X
from ECAgent.Core import Model, System, SystemManager, ModelCompleteError, Agent, Component
import ECAgent.Batching as B
from vf.stubs import NULL_LOGGER, NullLogger
from ECAgent.Collectors import Collector


class LogModel(Model):
    __slots__ = ['log']

    def __init__(self):
        super().__init__(logger=NULL_LOGGER)
        self.log = []


class S(System):
    __slots__ = ['completes', 'first', 'raises']

    def __init__(self, id, model, priority=0):
        super().__init__(id, model, priority=priority)
        self.completes = False
        self.first = None
        self.raises = False

    def execute(self):
        self.model.log.append((self.id, self.model.systems.timestep))
        if self.completes:
            if self.first is not None:
                self.first()                 # a structural change of the system set right before completing
            self.model.complete()
        if self.raises:
            self.raises = False
            raise RuntimeError("user system failed")


class T1(Component):
    pass


def _prestate(m, n, ps, t):
    q = []
    for i in range(n):
        s = S("s%d" % i, m, ps[i])
        s.start, s.end = t, t + 1000      # every system is due at the (arbitrary) current timestep and later
        q.append(s)
        m.systems.systems[s.id] = s
    m.systems.execution_queue[:] = q          # (in place: the list object is the scheduler's own)
    return q


def complete_midstep(p0: int, p1: int, p2: int, p3: int, c: int, t: int, log_enabled: bool = True) -> bool:
    """
    pre: p0 >= p1 >= p2 >= p3
    pre: 0 <= c < hx.P['n']
    post: _
    """
    hx.begin()
    NullLogger.enabled = log_enabled       # which log levels are enabled for the model's logger is ambient configuration
    try:
        return _complete_midstep(p0, p1, p2, p3, c, t)
    finally:
        NullLogger.enabled = True


def _complete_midstep(p0, p1, p2, p3, c, t):
    n = hx.P['n']
    m = LogModel()
    q = _prestate(m, n, [p0, p1, p2, p3], t)
    m.systems.timestep = t
    hx.pick(q, c).completes = True
    if hx.P.get('foreign'):
        # the systems after the completer were constructed for ANOTHER model that keeps running (e.g. one stateless
        # system object shared by two models); what counts is the model whose scheduler runs them
        other = LogModel()
        other.log = m.log
        hx.pick(q, c).model = m
        for i, s_ in enumerate(q):
            if i > c:
                s_.model = other
    also = hx.P.get('also')
    if also == 'cleanup':                # the completing system deregisters itself, then completes the model
        hx.pick(q, c).first = hx.pick(q, c).clean_up
    elif also == 'spawn':                # ... registers one more (lowest-priority) system, then completes the model
        late = S("late", m, p3 - 1)
        late.start, late.end = t, t + 1000
        hx.pick(q, c).first = lambda: m.systems.add_system(late)
    elif also == 'remove_first':         # ... removes the system that ran first in this timestep, then completes
        hx.pick(q, c).first = lambda: m.systems.remove_system(q[0].id) if c > 0 else None
    if not m.is_running() or not bool(m):
        return hx.end(hx.fail("fresh model not running"))
    if hx.P.get('second_manager'):
        # the timestep is driven by ANOTHER SystemManager built for the same model (a second schedule, e.g. a warm-up
        # phase): what counts is whether the model is still running
        sm2 = SystemManager(m)
        for s_ in q:
            sm2.systems[s_.id] = s_
        sm2.execution_queue[:] = q
        sm2.timestep = t
        sm2.execute_systems()
    else:
        m.execute()
    exp = [(s.id, t) for i, s in enumerate(q) if i <= c]
    if c < n - 1:
        hx.reach('skipped_rest')
    if m.log != exp:
        return hx.end(hx.fail("systems run in the completing timestep", got=m.log, exp=exp))
    if m.is_running() or bool(m):
        return hx.end(hx.fail("model still reports running"))
    return hx.end(True)


class S2(S):
    """completes the model when the scheduler reaches a given timestep"""
    __slots__ = ['at']

    def execute(self):
        self.model.log.append((self.id, self.model.systems.timestep))
        if self.at is not None and self.model.systems.timestep == self.at:
            self.model.complete()


def complete_during_multistep(p0: int, p1: int, p2: int, c: int, t: int, at: int) -> bool:
    """
    pre: p0 >= p1 >= p2
    pre: 0 <= c < hx.P['n']
    pre: 0 <= at < hx.P['k']
    post: _
    """
    # completion in the middle of a multi-step request execute(k): the rest of that timestep AND the remaining steps of
    # the same request are skipped; the timestep stops right after the completing one
    hx.begin()
    n, k = hx.P['n'], hx.P['k']
    m = LogModel()
    q = []
    ps = [p0, p1, p2]
    for i in range(n):
        s_ = S2("s%d" % i, m, ps[i])
        s_.start, s_.end, s_.at, s_.completes = t, t + 1000, None, False
        q.append(s_)
        m.systems.systems[s_.id] = s_
    m.systems.execution_queue[:] = q          # (in place: the list object is the scheduler's own)
    m.systems.timestep = t
    for i in range(n):
        if c == i:
            q[i].at = t + at
    m.execute(k)
    exp = []
    for step in range(at + 1):
        for i in range(n):
            if step < at or i <= c:
                exp.append(("s%d" % i, t + step))
    if at < k - 1:
        hx.reach('steps_skipped')
    if m.log != exp:
        return hx.end(hx.fail("systems run by execute(k) when the model completes during step %d" % at, got=m.log, exp=exp))
    if m.systems.timestep != t + at + 1 or m.timestep != t + at + 1:
        return hx.end(hx.fail("timestep after completion inside execute(k)", got=m.systems.timestep, exp=t + at + 1))
    return hx.end(not m.is_running())


def after_complete_step(p0: int, p1: int, p2: int, t: int, inside: bool, n_adv: int, pnew: int, log_enabled: bool) -> bool:
    """
    pre: p0 >= p1 >= p2
    pre: 1 <= n_adv <= 3
    post: _
    """
    # ANY completed model (arbitrary I1 queue, arbitrary timestep, completed from inside a timestep or from outside)
    # and ONE later request: one inductive step covers every later history.
    hx.begin()
    n, req = hx.P['n'], hx.P['req']
    NullLogger.enabled = log_enabled       # whether INFO is enabled for the model's logger: ambient configuration
    m = LogModel()
    q = _prestate(m, n, [p0, p1, p2], t)
    a = Agent("a", m)
    a.add_component(T1(a, m))
    m.environment.add_agent(a)
    m.systems.timestep = t
    if hx.P.get('interrupted') and n > 0:
        # a system fails (the driver loop catches the error); the model is completed - by that very system just before
        # it fails, or from outside afterwards; then the request
        victim = q[0] if hx.P['interrupted'] == 'first' else q[n - 1]
        victim.raises = True
        victim.completes = inside
        try:
            m.execute()
            return hx.end(hx.fail("a system's error did not reach the caller"))
        except RuntimeError:
            pass
        victim.completes = False
        if not inside:
            m.complete()
        hx.reach('completed_inside' if inside else 'completed_outside')
    elif inside and n > 0:
        q[0].completes = True
        m.execute()                 # completes during a timestep
        q[0].completes = False
        hx.reach('completed_inside')
    else:
        m.complete()                # completed from outside between steps
        hx.reach('completed_outside')
    t_after = m.systems.timestep
    del m.log[:]
    snap_q = list(m.systems.execution_queue)
    snap_pool = list(m.systems.component_pools.get(T1, []))
    snap_agents = list(m.environment.agents.values())
    if m.is_running() or bool(m):
        return hx.end(hx.fail("completed model reports running"))
    raised = None
    import warnings
    ctx = warnings.catch_warnings()
    ctx.__enter__()
    if hx.P.get('warnings_as_errors'):
        # (python -W error: how warnings are filtered is ambient configuration; restricted here to warnings issued by the
        # framework's own modules, so that the analysis engine's warnings stay what they are)
        warnings.filterwarnings('error', module=r'ECAgent(\..*)?$')
    try:
        if req == 'execute':
            m.execute()
        elif req == 'execute_n':
            m.execute(n_adv)
        elif req == 'execute_systems':
            m.systems.execute_systems()
        elif req == 'execute_systems_strict':
            # "when asked to": the flag is a truth value - True, or what a configuration / a numpy reduction yields
            fl = hx.P.get('flag', 'True')
            if fl == 'True':
                m.systems.execute_systems(True)
            elif fl == 'kw':
                m.systems.execute_systems(throw_error=True)
            elif fl == 'one':
                m.systems.execute_systems(1)
            else:
                import numpy
                m.systems.execute_systems(throw_error=numpy.bool_(True))
        elif req == 'execute_systems_lenient':
            import numpy
            m.systems.execute_systems(throw_error=(0 if hx.P.get('flag') == 'zero' else numpy.bool_(False)))
        elif req == 'add_system':
            m.systems.add_system(S("late", m, pnew))
            m.execute()
        elif req == 'remove_system':
            if n > 0:
                m.systems.remove_system("s0")
            m.execute()
        elif req == 'complete_again':
            m.complete()
            m.execute()
    except ModelCompleteError:
        raised = 'ModelCompleteError'
    except Warning as w_:
        raised = 'Warning:' + type(w_).__name__
    finally:
        ctx.__exit__(None, None, None)
    if req == 'execute_systems_strict':
        if raised != 'ModelCompleteError':
            return hx.end(hx.fail("strict advance on a complete model did not raise ModelCompleteError"))
    elif raised is not None:
        return hx.end(hx.fail("non-strict request raised", raised=raised))
    if m.log != []:
        return hx.end(hx.fail("a system ran after completion", log=m.log, request=req))
    if m.systems.timestep != t_after or m.timestep != t_after:
        return hx.end(hx.fail("timestep changed after completion", before=t_after, after=m.systems.timestep, request=req))
    if m.is_running() or bool(m):
        return hx.end(hx.fail("model reports running again", request=req))
    if req not in ('add_system', 'remove_system') and not hx.same_seq(m.systems.execution_queue, snap_q):
        return hx.end(hx.fail("system set changed by an advance request"))
    NullLogger.enabled = True
    if not hx.same_seq(list(m.systems.component_pools.get(T1, [])), snap_pool) or \
            not hx.same_seq(list(m.environment.agents.values()), snap_agents):
        return hx.end(hx.fail("model state changed by a request after completion"))
    return hx.end(True)


def two_later_requests(p0: int, p1: int, t: int, r0: int, r1: int, inside: bool) -> bool:
    """
    pre: p0 >= p1
    pre: 0 <= r0 < 6 and 0 <= r1 < 6
    post: _
    """
    # bounded cross-check of the inductive step: TWO later requests in a row on a completed model
    hx.begin()
    m = LogModel()
    q = _prestate(m, 2, [p0, p1], t)
    m.systems.timestep = t
    if inside:
        q[1].completes = True
        m.execute(2)
    else:
        m.complete()
    t_after = m.systems.timestep
    del m.log[:]
    for r in (r0, r1):
        try:
            if r == 0:
                m.execute()
            elif r == 1:
                m.execute(3)
            elif r == 2:
                m.systems.execute_systems()
            elif r == 3:
                m.systems.execute_systems(True)
                return hx.end(hx.fail("strict request did not raise"))
            elif r == 4:
                m.systems.add_system(S("late%d" % len(m.systems.systems), m, p0 + 1))
            else:
                m.complete()
        except ModelCompleteError:
            if r != 3:
                return hx.end(hx.fail("non-strict request raised"))
        if m.log != [] or m.systems.timestep != t_after or m.is_running() or bool(m):
            return hx.end(hx.fail("state changed by a request after completion", request=r, log=m.log))
    hx.reach('done')
    return hx.end(True)


class BM(Model):
    __slots__ = ['log', 'c']

    def __init__(self, c):
        super().__init__(logger=NULL_LOGGER)
        self.log = []
        self.c = c
        self.systems.add_system(Stopper("stop", self, priority=5))
        self.systems.add_system(Rec("rec", self))


class Stopper(System):
    def execute(self):
        if self.model.systems.timestep >= self.model.c:
            self.model.complete()


class Rec(Collector):
    def collect(self):
        self.records.append(self.model.systems.timestep)
        self.model.log.append(self.model.systems.timestep)


_LAST = []


def _score(model):
    _LAST.append(model)
    return model.systems.timestep


def batch_stops(c: int, mx: int) -> bool:
    """
    pre: 0 <= c <= hx.P['N'] and 0 <= mx <= hx.P['N']
    post: _
    """
    # the batch/search runners stop at the step limit or at completion, whichever comes first
    hx.begin()
    which = hx.P['which']
    procs = hx.P.get('procs', 1)
    from vf.stubs import FakePool
    saved_pool = B.Pool
    B.Pool = FakePool                       # (only used when procs > 1: the step limit must reach the workers too)
    FakePool.order = [0, 0, 0]
    try:
        return _batch_stops(c, mx, which, procs)
    finally:
        B.Pool = saved_pool


def _batch_stops(c, mx, which, procs):
    if which == 'batch':
        res = B.batch_run(BM, {"c": c}, collectors="rec", processes=procs, max_timesteps=mx)       # (public entry point)
        if len(res) != 1:
            return hx.end(hx.fail("one execution, one result", got=len(res)))
        recs = res[0]
        steps_expected = min(c, mx)            # at timestep c the stopper (priority 5) completes before the collector
        if recs != list(range(steps_expected)):
            return hx.end(hx.fail("records of a batch run", got=recs, exp=list(range(steps_expected))))
    else:
        del _LAST[:]
        best, results = B.grid_search(BM, {"c": c}, _score, processes=procs, repetitions=1, max_timesteps=mx)   # (public entry point)
        if len(results) != 1 or len(_LAST) != 1:
            return hx.end(hx.fail("one combination, one execution", results=len(results), executions=len(_LAST)))
        out = results[0]
        final = min(c + 1, mx)                 # completing timestep still counts as a step
        model = _LAST[0]
        if out['records'] != [final] or model.systems.timestep != final:
            return hx.end(hx.fail("final timestep of a search run", got=out['records'], exp=final))
        if model.log != list(range(min(c, mx))):
            return hx.end(hx.fail("systems ran past completion or the step limit", log=model.log))
    if c < mx:
        hx.reach('completed_first')
    else:
        hx.reach('limit_first')
    return hx.end(True)


BOUNDS = {"quick": {"systems": "<= 3 (completer at any position: <= 4)", "later requests": "one (inductive step)",
                    "timestep, priorities": "all ints"},
          "thorough": {"systems": "<= 4", "later requests": "one (inductive step)", "timestep, priorities": "all ints"}}
OUTSIDE = ["code that writes model._status directly (private attribute)", "more than 4 systems"]
STUBS = ["Model.logger replaced by a no-op logger (logging has an empty body)"]
ASSUMPTIONS = ["the state 'completed model' is: arbitrary I1 queue, arbitrary int timestep, one resident agent with one component; "
               "reached by completing inside a timestep or from outside"]


def obligations(tier):
    enc = (SystemManager.execute_systems, Model.execute, Model.complete, Model.is_running, Model.__bool__)
    reqs = ['execute', 'execute_n', 'execute_systems', 'execute_systems_strict', 'add_system', 'remove_system', 'complete_again']
    ns = (1, 2, 3) if tier == "quick" else (1, 2, 3, 4)
    N = 3 if tier == "quick" else 5
    return [
        X("complete_midstep", complete_midstep, parts=[{"n": n} for n in ns] + [{"n": 2, "foreign": True}, {"n": 3, "foreign": True}] +
          [{"n": n, "also": a} for n in (2, 3) for a in ("cleanup", "spawn", "remove_first")] + [{"n": 3, "second_manager": True}],
          labels=("skipped_rest",), labels_for=lambda p: ("skipped_rest",) if p["n"] > 1 else (), timeout=300, encoded=enc,
          bounds={"n": "1..%d" % ns[-1]}),
        X("complete_during_multistep", complete_during_multistep,
          parts=[{"n": n, "k": k} for n, k in (((1, 2), (2, 3), (3, 2)) if tier == "quick" else ((1, 2), (2, 3), (3, 2), (3, 4), (2, 5)))],
          labels=("steps_skipped",), timeout=600, encoded=enc, bounds={"n": "1..3", "k": "2..%d" % (3 if tier == "quick" else 5)}),
        X("after_complete_step", after_complete_step, parts=[{"n": n, "req": r} for n in ((0, 2, 3) if tier == "quick" else (0, 1, 2, 3)) for r in reqs] +
          [{"n": 2, "req": r, "warnings_as_errors": True} for r in ("execute", "execute_systems", "execute_systems_strict")] +
          [{"n": 2, "req": "execute_systems_strict", "flag": f} for f in ("kw", "one", "npbool")] +
          [{"n": 2, "req": "execute_systems_lenient", "flag": f} for f in ("zero", "npfalse")] +
          [{"n": 2, "req": r, "interrupted": w} for w in ("first", "last") for r in ("execute", "execute_n", "execute_systems", "execute_systems_strict")],
          labels=("completed_inside", "completed_outside"),
          labels_for=lambda p: ("completed_inside", "completed_outside") if p["n"] else ("completed_outside",),
          timeout=300, group=3, encoded=enc + (SystemManager.add_system, SystemManager.remove_system),
          bounds={"n": "0,2,3", "requests": ",".join(reqs)}),
        X("two_later_requests", two_later_requests, labels=("done",), timeout=600, encoded=enc),
        X("batch_stops", batch_stops, parts=[{"which": w, "N": N} for w in ("batch", "search")] + [{"which": w, "N": N, "procs": 2} for w in ("batch", "search")],
          labels=("completed_first", "limit_first"), timeout=600,
          encoded=(B.batch_run, B.grid_search), bounds={"completion time, step limit": "0..%d" % N}),
    ]
