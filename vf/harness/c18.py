"""C18 - decoding follows the documented lifecycle and builds exactly what is listed (engine X; file I/O stubbed)."""
import sys
import types
import vf.hx as hx
from vf.spec import X
from vf.stubs import NULL_LOGGER
import ECAgent.Decode as D
from ECAgent.Core import Model, System, Agent, SystemManager

LOG = []
MOD = __name__


class DM(Model, D.IDecodable):
    @staticmethod
    def decode(params):
        LOG.append(("model", MOD))
        m = DM(logger=NULL_LOGGER)
        if params.get("complete_in_decode"):
            m.complete()
        return m


class DS(System, D.IDecodable):
    @staticmethod
    def decode(params):
        LOG.append(("system", MOD, params["id"], params["model"]))
        return DS(params["id"], params["model"], priority=params["priority"], frequency=params["frequency"],
                  start=params["start"], end=params["end"])

    def execute(self):
        pass


class DA(Agent, D.IDecodable):
    @staticmethod
    def decode(params):
        LOG.append(("agent", MOD, params["pre"], params["agent_index"], params["model"]))
        return DA(params["pre"] + str(params["agent_index"]), params["model"])


PRESENT = []
NESTED = {}


def hook(params):
    LOG.append(("hook", MOD, params["name"], params.get("model")))
    if params.get("model") is not None:
        PRESENT.append((params["name"], len(params["model"].environment)))     # what the hook finds in the environment
    if params.get("complete") and params.get("model") is not None:
        params["model"].complete()
    if params.get("swap_env") and params.get("model") is not None:
        # a hook may give the model another environment through the public Model.set_environment()
        from ECAgent.Core import Environment
        params["model"].set_environment(Environment(params["model"], id="SWAPPED"))
    if params.get("nested") and NESTED.get("decoder") is not None:
        # a hook may decode another description with the SAME decoder object (e.g. an auxiliary sub-model)
        dec, data = NESTED["decoder"], NESTED["data"]
        NESTED["decoder"] = None
        outer = dec.data
        dec.data = data
        saved = list(LOG)
        NESTED["model"] = dec.decode("inner.json")
        dec.data = outer
        del LOG[:]
        LOG.extend(saved)


# hooks need not be plain functions: any callable the module exposes under the given name will do
import functools


def _hook_with_prefix(prefix, params):
    hook(params)


hook_partial = functools.partial(_hook_with_prefix, "p")


class _HookObject:
    def __call__(self, params):
        hook(params)

    def method(self, params):
        hook(params)


hook_instance = _HookObject()
hook_method = _HookObject().method
HOOK_NAMES = {"def": "hook", "partial": "hook_partial", "instance": "hook_instance", "method": "hook_method"}


# a second module with classes and hooks of the SAME names (decoding from separate files in one process)
_alt = types.ModuleType("vf_c18_alt")
exec('''
import ECAgent.Decode as D
from ECAgent.Core import Model, System, Agent, SystemManager
from vf.stubs import NULL_LOGGER
LOG = None
MOD = "vf_c18_alt"
class DM(Model, D.IDecodable):
    @staticmethod
    def decode(params):
        LOG.append(("model", MOD)); return DM(logger=NULL_LOGGER)
class DS(System, D.IDecodable):
    @staticmethod
    def decode(params):
        LOG.append(("system", MOD, params["id"], params["model"]))
        return DS(params["id"], params["model"], priority=params["priority"], frequency=params["frequency"], start=params["start"], end=params["end"])
    def execute(self): pass
class DA(Agent, D.IDecodable):
    @staticmethod
    def decode(params):
        LOG.append(("agent", MOD, params["pre"], params["agent_index"], params["model"]))
        return DA(params["pre"] + str(params["agent_index"]), params["model"])
def hook(params):
    LOG.append(("hook", MOD, params["name"], params.get("model")))
''', _alt.__dict__)
_alt.LOG = LOG
sys.modules["vf_c18_alt"] = _alt


class Dec(D.Decoder):
    def __init__(self, data):
        self.data = data
        self.opened = []

    def open_file(self, f):
        self.opened.append(f)
        return self.data


def _describe(mod, ns, ng, hooks, nums, prios, wins, completing_hook=None, special=None):
    """description dict + the event sequence the documented lifecycle prescribes for it"""
    def H(name):
        # (partition 'hook_mod': the hooks live in ANOTHER module than the classes they accompany)
        d = {"func": HOOK_NAMES[hx.P.get("hook_kind", "def")], "module": hx.P.get("hook_mod", mod), "params": {"name": name}}
        if completing_hook == name:
            d["params"]["complete"] = True
        if special and special[0] == name:
            d["params"][special[1]] = True
        return d
    data = {"model": {"name": "DM", "module": mod, "params": {}}, "systems": [], "agents": []}
    exp = []
    if hooks["pre_model"]:
        data["pre_model_decode"] = H("pre_model")
        exp.append(("hook", "pre_model", False))
    exp.append(("model",))
    for i in range(ns):
        sd = {"name": "DS", "module": mod,
              "params": {"id": "s%d" % i, "priority": prios[i], "frequency": wins[i][2], "start": wins[i][0], "end": wins[i][1]}}
        if hooks["pre_sys"][i]:
            sd["pre_system_init"] = H("pre_s%d" % i)
            exp.append(("hook", "pre_s%d" % i, True))
        exp.append(("system", "s%d" % i))
        if hooks["post_sys"][i]:
            sd["post_system_init"] = H("post_s%d" % i)
            exp.append(("hook", "post_s%d" % i, True))
        data["systems"].append(sd)
    for i in range(ng):
        ad = {"name": "DA", "module": mod, "number": nums[i], "params": {"pre": "g%d_" % i}}
        if hooks["pre_grp"][i]:
            ad["pre_agent_init"] = H("pre_g%d" % i)
            exp.append(("hook", "pre_g%d" % i, True))
        for j in range(nums[i]):
            exp.append(("agent", "g%d_" % i, j))
        if hooks["post_grp"][i]:
            ad["post_agent_init"] = H("post_g%d" % i)
            exp.append(("hook", "post_g%d" % i, True))
        data["agents"].append(ad)
    if hooks["post_model"]:
        data["post_model_decode"] = H("post_model")
        exp.append(("hook", "post_model", False))
    return data, exp


def _check_log(log, exp, model, mod):
    if len(log) != len(exp):
        return hx.fail("lifecycle events", got=[e[:3] for e in log], exp=exp)
    hook_mod = hx.P.get('hook_mod', mod)
    for ev, e in zip(log, exp):
        if ev[0] != e[0] or ev[1] != (hook_mod if e[0] == "hook" else mod):
            return hx.fail("lifecycle order / module", got=[x[:3] for x in log], exp=exp)
        if e[0] == "hook":
            if ev[2] != e[1]:
                return hx.fail("lifecycle order", got=[x[:3] for x in log], exp=exp)
            if e[2] and ev[3] is not model:
                return hx.fail("a system-/agent-level hook did not receive the decoded model", hook=e[1], got=repr(ev[3]))
        elif e[0] == "system":
            if ev[2] != e[1] or ev[3] is not model:
                return hx.fail("system decode: wrong id or did not receive the decoded model", got=ev[2])
        elif e[0] == "agent":
            if ev[2] != e[1] or ev[3] != e[2] or ev[4] is not model:
                return hx.fail("agent decode: wrong group/index or did not receive the decoded model", got=ev[2:4], exp=e[1:])
    return True


def lifecycle(hm0: bool, hm1: bool, hs00: bool, hs01: bool, hs10: bool, hs11: bool, ha00: bool, ha01: bool,
              ha10: bool, ha11: bool, n0: int, n1: int, p0: int, p1: int, st0: int, en0: int, st1: int, en1: int) -> bool:
    """
    pre: 0 <= n0 <= hx.P['G'] and 0 <= n1 <= hx.P['G']
    post: _
    """
    hx.begin()
    ns, ng, mod = hx.P['s'], hx.P['g'], hx.P.get('mod', MOD)
    del LOG[:]
    del PRESENT[:]
    if 'hm' in hx.P:                      # model-level hook flags chosen by the partition (splits the work across cores)
        hm0, hm1 = hx.P['hm']
    if 'n1' in hx.P:
        n1 = hx.P['n1']
    hooks = {"pre_model": hm0, "post_model": hm1, "pre_sys": [hs00, hs10], "post_sys": [hs01, hs11],
             "pre_grp": [ha00, ha10], "post_grp": [ha01, ha11]}
    wins = [(st0, en0, 2), (st1, en1, 3)]
    special = hx.P.get('special')
    if special:
        for key, idx in (("pre_sys", 0), ("pre_grp", 0)):
            pass
        # the hook that carries the special action is always present
        nm = special[0]
        if nm == "pre_g0":
            hooks["pre_grp"][0] = True
        elif nm == "post_s0":
            hooks["post_sys"][0] = True
        elif nm == "pre_s0":
            hooks["pre_sys"][0] = True
    data, exp = _describe(mod, ns, ng, hooks, [n0, n1], [p0, p1], wins, hx.P.get('completing'), special)
    dec = Dec(data)
    if special and special[1] == "nested":
        inner_hooks = {"pre_model": False, "post_model": False, "pre_sys": [False, False], "post_sys": [False, False],
                       "pre_grp": [False, False], "post_grp": [False, False]}
        NESTED["data"], _ = _describe(mod, 1, 1, inner_hooks, [1, 0], [0, 0], [(0, 1, 1), (0, 1, 1)])
        NESTED["data"]["systems"][0]["params"]["id"] = "inner_sys"
        NESTED["data"]["agents"][0]["params"]["pre"] = "inner_"
        NESTED["decoder"] = dec
        NESTED["model"] = None
    model = dec.decode("file.json")
    if special and special[1] == "nested":
        hx.reach('nested')
        inner = NESTED["model"]
        if inner is None or inner is model:
            return hx.end(hx.fail("decode() returned the model of a nested decode instead of its own"))
        if sorted(inner.systems.systems) != ["inner_sys"] or [a.id for a in inner.environment] != ["inner_0"]:
            return hx.end(hx.fail("the nested decode received systems/agents of the outer description",
                                  systems=sorted(inner.systems.systems), agents=[a.id for a in inner.environment]))
        dec.opened = [f for f in dec.opened if f != "inner.json"]
    if special and special[1] == "swap_env":
        hx.reach('swapped')
    if dec.opened != ["file.json"]:
        return hx.end(hx.fail("open_file calls", got=dec.opened))
    if _check_log(LOG, exp, model, mod) is not True:
        return hx.end(False)
    if len(exp) >= 6:
        hx.reach('rich')
    if ng > 0 and n0 == 0:
        hx.reach('empty_group')
    # the model contains exactly the listed systems with their declared scheduling, in priority order ...
    ids = sorted(model.systems.systems)
    if ids != ["s%d" % i for i in range(ns)]:
        return hx.end(hx.fail("systems of the decoded model", got=ids))
    for i in range(ns):
        s = model.systems.systems["s%d" % i]
        if s.priority != [p0, p1][i] or (s.start, s.end, s.frequency) != wins[i] or s.model is not model:
            return hx.end(hx.fail("declared scheduling of a system", id=s.id))
    q = model.systems.execution_queue
    if len(q) != ns:
        return hx.end(hx.fail("execution queue length"))
    if ns == 2:
        first = "s1" if p1 > p0 else "s0"
        if q[0].id != first:
            return hx.end(hx.fail("execution queue order", got=[s.id for s in q]))
    # a group's pre hook finds the agents of the earlier groups only, its post hook all of its own agents as well.  (Whether
    # the agents of ONE group are added one at a time or together after all were created is not fixed by the property.)
    if mod == MOD and not special:
        for name, found in PRESENT:
            for gi in range(ng):
                before = sum([n0, n1][:gi])
                if name == "pre_g%d" % gi and found != before:
                    return hx.end(hx.fail("a group's pre hook found agents of its own or a later group", hook=name, found=found, exp=before))
                if name == "post_g%d" % gi and found != before + [n0, n1][gi]:
                    return hx.end(hx.fail("a group's post hook ran before all of the group's agents had joined", hook=name,
                                          found=found, exp=before + [n0, n1][gi]))
    # ... and exactly the created agents, indices 0..n-1 per group, in order
    want = ["g%d_%d" % (i, j) for i in range(ng) for j in range([n0, n1][i])]
    if [a.id for a in model.environment] != want:
        return hx.end(hx.fail("agents of the decoded model", got=[a.id for a in model.environment], exp=want))
    for a in model.environment:
        if a.model is not model:
            return hx.end(hx.fail("agent built for another model"))
    return hx.end(True)


def unbuildable(p0: int, p1: int, hs01: bool, hs11: bool, n0: int) -> bool:
    """
    pre: 0 <= n0 <= 2
    post: _
    """
    # a description that cannot be built as listed (two listed systems share an id: a model holds one system per id):
    # decode() either refuses it, or returns a model with exactly the listed systems - never a model that silently
    # lacks a listed system
    hx.begin()
    del LOG[:]
    hooks = {"pre_model": False, "post_model": True, "pre_sys": [False, False], "post_sys": [hs01, hs11],
             "pre_grp": [False, False], "post_grp": [False, False]}
    data, _ = _describe(MOD, 2, 1, hooks, [n0, 0], [p0, p1], [(0, 5, 1), (1, 7, 2)])
    data["systems"][1]["params"]["id"] = "s0"
    dec = Dec(data)
    try:
        model = dec.decode("file.json")
    except KeyError:
        hx.reach('refused')
        return hx.end(True)
    listed = [(p0, 0, 5, 1), (p1, 1, 7, 2)]
    got = sorted((s_.priority, s_.start, s_.end, s_.frequency) for s_ in model.systems.execution_queue)
    if got != sorted(listed):
        return hx.end(hx.fail("decode() returned a model that lacks a listed system", queue=got, listed=listed))
    return hx.end(True)


def three_systems(p0: int, p1: int, p2: int) -> bool:
    """
    post: _
    """
    # three listed systems with arbitrary priorities: the decoded model schedules them by priority, listing order among equals
    hx.begin()
    del LOG[:]
    del PRESENT[:]
    hooks = {"pre_model": False, "post_model": False, "pre_sys": [False] * 3, "post_sys": [False] * 3,
             "pre_grp": [False, False], "post_grp": [False, False]}
    ps = [p0, p1, p2]
    data, _ = _describe(MOD, 3, 0, hooks, [0, 0], ps, [(0, 9, 1), (0, 9, 1), (0, 9, 1)])
    model = Dec(data).decode("file.json")
    hx.reach('decoded')
    want = []
    for i in range(3):
        pos = len([j for j in want if ps[j] >= ps[i]])
        want.insert(pos, i)
    got = [s_.id for s_ in model.systems.execution_queue]
    if got != ["s%d" % i for i in want]:
        return hx.end(hx.fail("execution order of three decoded systems", got=got, exp=["s%d" % i for i in want], priorities=ps))
    return hx.end(sorted(model.systems.systems) == ["s0", "s1", "s2"])


def repeat(hm0: bool, hs0: bool, ha1: bool, n0: int, p0: int) -> bool:
    """
    pre: 0 <= n0 <= 2
    post: _
    """
    # decoding repeatedly and from separate "files" whose classes/hooks have the same names in different modules
    hx.begin()
    seq = hx.P['seq']
    hooks = {"pre_model": hm0, "post_model": False, "pre_sys": [hs0, False], "post_sys": [False, False],
             "pre_grp": [False, False], "post_grp": [ha1, False]}
    models = []
    kept = {}
    for mod in seq:
        del LOG[:]
        data, exp = _describe(mod, 1, 1, hooks, [n0, 0], [p0, 0], [(0, 5, 1), (0, 5, 1)])
        if hx.P.get('same_dict'):
            # a decoder that keeps the parsed description in memory hands the SAME dict object to every decode
            data = kept.setdefault(mod, data)
        model = Dec(data).decode("f")
        if _check_log(LOG, exp, model, mod) is not True:
            return hx.end(False)
        cls_mod = sys.modules[mod]
        if type(model) is not cls_mod.DM or type(model.systems.systems["s0"]) is not cls_mod.DS:
            return hx.end(hx.fail("built from a class of another module", listed=mod, model=type(model).__module__))
        for a in model.environment:
            if type(a) is not cls_mod.DA:
                return hx.end(hx.fail("agent built from a class of another module", listed=mod))
        if len(model.environment) != n0:
            return hx.end(hx.fail("number of agents"))
        for other in models:
            if other is model or other.systems is model.systems or other.environment is model.environment:
                return hx.end(hx.fail("two decodes share state"))
        models.append(model)
    hx.reach('done')
    return hx.end(True)


BOUNDS = {"quick": {"systems": "<= 2", "agent groups": "<= 2 of <= 2", "hooks": "every subset of the optional hooks", "priorities, windows": "all ints"},
          "thorough": {"systems": "<= 2", "agent groups": "<= 2 of <= 3", "hooks": "every subset"}}
OUTSIDE = ["json.load and the file system (JsonDecoder.open_file is two lines of I/O; a Decoder subclass returns the description)",
           "more than 2 systems / 2 groups", "descriptions lacking the mandatory keys"]
STUBS = ["Decoder.open_file overridden to return the description dict", "Model.logger replaced by a no-op logger"]
ASSUMPTIONS = ["recording model/system/agent classes and hook functions live in the harness module and in a second module with the same names"]


def obligations(tier):
    G = 2 if tier == "quick" else 3
    enc = (D.Decoder.decode, D.Decoder.str_to_class, D.Decoder.str_to_func, D.Decoder.get_module_name)
    parts = []
    for s in (0, 1, 2):
        for g in (0, 1, 2):
            if s == 2 and g == 2 and tier == "quick":
                continue
            if s + g >= 3:
                parts += [{"s": s, "g": g, "G": G, "hm": [a, b], "n1": n} for a in (False, True) for b in (False, True)
                          for n in (range(G + 1) if g == 2 else (0,))]
            else:
                parts.append({"s": s, "g": g, "G": G})
    parts += [{"s": 1, "g": 1, "G": 1, "mod": "vf_c18_alt"}]
    parts += [{"s": 1, "g": 1, "G": 1, "hook_kind": hk} for hk in ("partial", "instance", "method")]
    parts += [{"s": 2, "g": 1, "G": 1, "hook_mod": "vf_c18_alt", "hm": [True, True]}, {"s": 1, "g": 2, "G": 1, "hook_mod": "vf_c18_alt", "hm": [False, True]}]
    # a hook completes the model during decoding: later hooks must still receive the model
    parts += [{"s": 2, "g": 1, "G": 1, "completing": "pre_s0", "hm": [False, True]}, {"s": 1, "g": 1, "G": 1, "completing": "post_s0"}]
    # a hook replaces the model's environment / decodes another description with the same decoder object
    parts += [{"s": 1, "g": 2, "G": 1, "special": ["pre_g0", "swap_env"], "hm": [False, False]},
              {"s": 1, "g": 1, "G": 2, "special": ["post_s0", "swap_env"], "hm": [True, False]},
              {"s": 2, "g": 1, "G": 1, "special": ["pre_s0", "nested"], "hm": [False, True]},
              {"s": 1, "g": 1, "G": 2, "special": ["pre_g0", "nested"], "hm": [False, False]}]

    def lab(p):
        out = []
        if p.get("special"):
            return ("nested",) if p["special"][1] == "nested" else ("swapped",)
        if p["s"] + p["g"] >= 2:
            out.append("rich")
        if p["g"] > 0:
            out.append("empty_group")
        return tuple(out)
    return [
        X("lifecycle", lifecycle, parts=parts, labels=("rich", "empty_group", "nested", "swapped"), labels_for=lab, timeout=1200, encoded=enc),
        X("three_systems", three_systems, labels=("decoded",), timeout=300, encoded=enc + (SystemManager.add_system,),
          bounds={"systems": 3, "priorities": "all ints"}),
        X("unbuildable", unbuildable, labels=("refused",), timeout=300, encoded=enc + (SystemManager.add_system,),
          bounds={"description": "2 systems sharing an id, 1 agent group of 0..2 agents; priorities any ints"}),
        X("repeat", repeat, parts=[{"seq": [MOD, MOD]}, {"seq": [MOD, "vf_c18_alt"]}, {"seq": ["vf_c18_alt", MOD, "vf_c18_alt"]},
                 {"seq": [MOD, MOD], "same_dict": True}, {"seq": [MOD, "vf_c18_alt", MOD], "same_dict": True}],
          labels=("done",), timeout=600, encoded=enc),
    ]
