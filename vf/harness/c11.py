"""C11 - cell components hold each cell's own value and are independent of sources (engine X, pandas contract stubbed).

pandas cannot run under symbolic execution (C internals; measured NotDeterministic).  The cell table is therefore a
stand-in implementing pandas' DOCUMENTED contract for the five operations ECAgent uses, with the worst case wherever
the contract leaves a choice: column assignment stores element i for row i; a list is copied into the frame; an
ndarray MAY be stored without copying (so independence from the caller's array is the code's job - np.copy);
drop(columns=[c], inplace=True) removes exactly that column; `in` tests column names.  Everything else is real code:
the world constructors, add_cell_component, remove_cell_component, the bundled generators.

Known finding F4: LookupGenerator fails for 1-D and 2-D worlds when called the way a world calls it (3-tuple).
"""
import numpy as np
import vf.hx as hx
from vf.spec import X
from vf.stubs import NULL_LOGGER
from ECAgent.Core import Model, ComponentNotFoundError
import ECAgent.Environments as Env


from vf.stubs import Frame, patched_pandas as _Patched


def _mk(kind, m):
    if kind == 'line':
        return Env.LineWorld(m, 3), (3, 0, 0)
    if kind == 'grid':
        return Env.GridWorld(m, 2, 2), (2, 2, 0)
    if kind == 'cube':
        return Env.DiscreteWorld(m, 2, 1, 2), (2, 1, 2)
    if kind == 'flat_mid':
        return Env.DiscreteWorld(m, 2, 0, 2), (2, 0, 2)
    if kind == 'nox':                        # a grid without an x axis
        return Env.DiscreteWorld(m, 0, 2, 2), (0, 2, 2)
    return Env.DiscreteWorld(m, 0, 0, 0), (0, 0, 0)


def _cells_of(shape):
    w, h, d = shape
    return [(x, y, z) for z in range(max(d, 1)) for y in range(max(h, 1)) for x in range(max(w, 1))]


_ELEMS = [0, "cell", 2.5, (1, 2), None]


def _growth_rule():
    return 0.0


def sources(src: int, e0: int, e1: int, e2: int, e3: int, v0: int, v1: int, v2: int, v3: int, mut: int) -> bool:
    """
    pre: 0 <= src < 5
    pre: 0 <= e0 < len(_ELEMS) and 0 <= e1 < len(_ELEMS) and 0 <= e2 < len(_ELEMS) and 0 <= e3 < len(_ELEMS)
    pre: 0 <= mut < 4
    post: _
    """
    hx.begin()
    kind = hx.P['world']
    if 'src' in hx.P:                  # source kind / mutated index chosen by the partition (splits the work across cores)
        src = hx.P['src']
    if 'mut' in hx.P:
        mut = hx.P['mut']
    with _Patched():
        m = Model(logger=NULL_LOGGER)
        env, shape = _mk(kind, m)
        cells = _cells_of(shape)
        n = len(cells)
        if len(env.cells) != n or list(env.cells['pos']) != cells:
            return hx.end(hx.fail("the world's position table", got=list(env.cells['pos']), exp=cells))
        vals = [v0, v1, v2, v3][:n]
        calls = []
        if src == 0:                                    # a generator: opaque value per cell
            hx.reach('callable')

            def gen(pos, table):
                calls.append((pos, table))
                for i in range(n):
                    if pos == cells[i]:
                        return vals[i]
                return "unknown cell"
            source = gen
            if hx.P.get('sized_callable'):
                # a callable OBJECT that is also sized and indexable (an image-style raster whose raw rows run the other
                # way): still a generator - what counts is what it returns when called with a cell's coordinates
                class Raster:
                    def __call__(self, pos, table):
                        return gen(pos, table)

                    def __len__(self):
                        return n

                    def __getitem__(self, i):
                        if not 0 <= i < n:
                            raise IndexError(i)
                        return ("raw", n - 1 - i)

                    def __iter__(self):
                        return iter([("raw", n - 1 - i) for i in range(n)])
                source = Raster()
            env.add_cell_component("c", source)
            want = list(vals)
            # evaluated exactly once per cell, in id order, with that cell's coordinates and the cell table
            if [c[0] for c in calls] != cells or not all(list(c[1]['pos']) == cells for c in calls):
                return hx.end(hx.fail("generator calls", got=[c[0] for c in calls], exp=cells))
        elif src == 4:                                  # a generator that lazily creates a prerequisite component while it runs
            hx.reach('nested')

            def gen2(pos, table):
                if "base" not in env.cells:
                    env.add_cell_component("base", [100 + i for i in range(n)])
                for i in range(n):
                    if pos == cells[i]:
                        return vals[i]
            env.add_cell_component("c", gen2)
            want = list(vals)
            if "base" not in env.cells or list(env.cells["base"]) != [100 + i for i in range(n)]:
                return hx.end(hx.fail("a component added while another one was being generated is gone or altered",
                                      present="base" in env.cells))
        elif src == 3:                                  # the bundled constant generator; the constant may be a sequence
            hx.reach('constant')
            ck = e0 % 6                               # (incl. the falsy constants None and False: empty slots to be filled later)
            const = vals[0] if ck == 0 else [vals[i] for i in range(n)] if ck == 1 else tuple(vals[i] for i in range(n)) if ck == 2 \
                else (1, 2) if ck == 3 else None if ck == 4 else False
            if hx.P.get('callable_constant'):
                const = _growth_rule               # a constant that happens to be callable (a per-cell rule, a class): stored as it is
            env.add_cell_component("c", Env.ConstantGenerator(const))
            want = [const] * n
        elif src == 1:                                  # a list whose element kinds the solver chooses (mixed types!)
            hx.reach('list')
            es = [e0, e1, e2, e3][:n]
            source = [hx.pick(_ELEMS, e) for e in es]
            want = list(source)
            # known finding F7 (class): the values are numbers and None only, at least one of each - pandas then builds a
            # float column and None is stored as NaN.  The property obligations decide everything outside that class.
            in_f7 = all(e in (0, 2, 4) for e in es) and any(e == 4 for e in es) and any(e != 4 for e in es)
            mode = hx.P.get('mode', 'outside')
            if in_f7 != (mode != 'outside'):
                return hx.end(True)
            if in_f7:
                hx.reach('none_among_numbers')
            if hx.P.get('alias'):
                import warnings
                warnings.simplefilter("ignore")
                env.addCellComponent("c", source)      # deprecated alias of add_cell_component
            else:
                env.add_cell_component("c", source)
            source[mut % n] = "changed later"          # later changes to the caller's list do not show through
            source.append("extra")
        else:                                           # a numpy array
            hx.reach('ndarray')
            if hx.P.get('float_array'):                 # decimal fractions: exactly representable as float64 only
                source = np.array([i + 0.1 for i in range(n)])
                want = [np.float64(i + 0.1) for i in range(n)]
            else:
                source = np.arange(n) * 7 + 3
                want = [int(x) for x in source]
            env.add_cell_component("c", source)
            source[mut % n] = -1                       # later changes to the caller's array do not show through
        col = env.cells['c']
        if len(col) != n:
            return hx.end(hx.fail("component length", got=len(col), exp=n))
        for i in range(n):
            a, b = col[i], want[i]
            # the same object, an equal value of the same type, or - for numbers - the same numeric value (a column of
            # numbers may come back as numpy integers / floats of equal value)
            same = (a is b) or (type(a) is type(b) and a == b) or (
                isinstance(b, (int, float)) and not isinstance(b, (bool, np.floating)) and
                isinstance(a, (int, float, np.integer, np.floating)) and not isinstance(a, bool) and a == b)
            if not same and src == 1 and hx.P.get('mode') == 'recorded' and b is None and isinstance(a, float) and a != a:
                continue                  # F7, recorded behaviour: exactly the None cells hold NaN
            if not same:
                return hx.end(hx.fail("cell %d does not hold its source's value" % i, got=repr(a), exp=repr(b),
                                      source_kind=["callable", "list", "ndarray", "ConstantGenerator", "nesting callable"][src]))
        if list(env.cells['pos']) != cells:
            return hx.end(hx.fail("adding a component changed the set of cells"))
    return hx.end(True)


_NAMES = ["rain", "rainfall", "soil"]        # (one name is contained in another)
# 'pos' is the name under which the world itself keeps the cells' coordinates: as a cell-component name it is hostile
_HOSTILE = ["rain", "pos", "soil"]


def history(o0: int, o1: int, o2: int, nm0: int, nm1: int, nm2: int) -> bool:
    """
    pre: 0 <= o0 < 4 and 0 <= o1 < 4 and 0 <= o2 < 4
    pre: 0 <= nm0 < len(hx.P.get('names', _NAMES)) and 0 <= nm1 < len(hx.P.get('names', _NAMES)) and 0 <= nm2 < len(hx.P.get('names', _NAMES))
    post: _
    """
    # several named components on two worlds of the same shape: adding/removing one leaves every other component, the
    # set of cells and the other world unchanged; removing an unknown component is rejected
    hx.begin()
    kind, k = hx.P['world'], hx.P['k']
    names = hx.P.get('names', _NAMES)
    with _Patched():
        m = Model(logger=NULL_LOGGER)
        envs = [_mk(kind, m)[0], _mk(kind, m)[0]]
        shape = _mk(kind, m)[1]
        cells = _cells_of(shape)
        n = len(cells)
        ref = [{}, {}]
        ops = [o0, o1, o2][:k]
        if 'ops' in hx.P:                    # targeted history: operation kinds fixed, names chosen by the solver
            ops = list(hx.P['ops'])
        nms = [nm0, nm1, nm2][:k]
        for step in range(k):
            op, name = ops[step], hx.pick(names, nms[step])
            wi = 0 if op in (0, 1, 3) else 1
            env = envs[wi]
            if op == 3:               # an add on world 0 that FAILS (the caller catches the error and carries on)
                def broken(pos, cells_):
                    if pos[0] >= 1:
                        raise RuntimeError("source failed for cell %r" % (pos,))
                    return 0
                try:
                    env.add_cell_component(name, [0] * (n + 1) if step % 2 == 0 else broken)
                    return hx.end(True)          # (accepted: nothing to compare - whether it must fail is not the subject)
                except (ValueError, RuntimeError):
                    hx.reach('add_failed')
            elif op in (0, 2):          # add (or overwrite) on world 0 / world 1
                data = [(step + 1) * 100 + wi * 10 + i for i in range(n)]
                if step % 2 == 1:         # every other source assigns text, and nothing (None) to one cell
                    data = [None if i == 1 else "s%d.%d" % (step, i) for i in range(n)]
                if name == 'pos':
                    # the set of cells must survive whatever happens to this request: refused, or stored elsewhere
                    try:
                        env.add_cell_component(name, list(data))
                    except ValueError:
                        pass
                    hx.reach('hostile_add')
                else:
                    env.add_cell_component(name, list(data))
                    ref[wi][name] = data
                    hx.reach('added')
            else:                     # remove on world 0
                if name in ref[0]:
                    env.remove_cell_component(name)
                    del ref[0][name]
                    hx.reach('removed')
                else:
                    hx.reach('remove_rejected')
                    try:
                        env.remove_cell_component(name)
                        return hx.end(hx.fail("removing an unknown cell component was accepted", name=name, step=step))
                    except ComponentNotFoundError:
                        pass
            for j in (0, 1):
                if 'pos' not in envs[j].cells:
                    return hx.end(hx.fail("set of cells destroyed (the world's coordinate column is gone)", world=j, step=step,
                                          after="%s %r" % (("add", "remove", "add", "failing add")[op], name)))
                if list(envs[j].cells['pos']) != cells:
                    return hx.end(hx.fail("set of cells changed", world=j, step=step))
                for nm in names:
                    if nm == 'pos':
                        continue
                    if (nm in envs[j].cells) != (nm in ref[j]):
                        return hx.end(hx.fail("component presence", world=j, name=nm, step=step,
                                              present=nm in envs[j].cells, expected=nm in ref[j]))
                    if nm in ref[j] and list(envs[j].cells[nm]) != ref[j][nm]:
                        return hx.end(hx.fail("another component's values changed", world=j, name=nm, step=step))
    return hx.end(True)


def lookup_generator(x: int, y: int, z: int, t0: int, t1: int, t2: int, t3: int, t4: int, t5: int, t6: int, t7: int) -> bool:
    """
    post: _
    """
    hx.begin()
    dim, mode = hx.P['dim'], hx.P['mode']
    tv = [t0, t1, t2, t3, t4, t5, t6, t7]
    if dim == 1:
        ext = (3, 0, 0)
        table = [tv[0], tv[1], tv[2]]
        entry = lambda c: table[c[0]]
    elif dim == 2:
        ext = (2, 2, 0)
        table = [[tv[0], tv[1]], [tv[2], tv[3]]]
        entry = lambda c: table[c[0]][c[1]]
    else:
        ext = (2, 2, 2)
        table = [[[tv[0], tv[1]], [tv[2], tv[3]]], [[tv[4], tv[5]], [tv[6], tv[7]]]]
        entry = lambda c: table[c[0]][c[1]][c[2]]
    if not (0 <= x < max(ext[0], 1) and 0 <= y < max(ext[1], 1) and 0 <= z < max(ext[2], 1)):
        return hx.end(True)
    cx = 0 if x == 0 else 1 if x == 1 else 2
    cy = 0 if y == 0 else 1
    cz = 0 if z == 0 else 1
    gen = Env.LookupGenerator(table)
    want = entry((cx, cy, cz))
    if mode == 'direct':
        # called with the position in the table's own dimensionality (int / 2-tuple / 3-tuple)
        hx.reach('called')
        pos = cx if dim == 1 else (cx, cy) if dim == 2 else (cx, cy, cz)
        if gen(pos, None) is not want:
            return hx.end(hx.fail("lookup (direct call)", dim=dim))
        # the caller edits the table in place and uses the SAME generator again: the new entry is what a cell gets
        new = t0 + 1
        if dim == 1:
            table[cx] = new
        elif dim == 2:
            table[cx][cy] = new
        else:
            table[cx][cy][cz] = new
        return hx.end(gen(pos, None) is new or hx.fail("lookup after the table was edited in place (stale copy?)", dim=dim))
    # called the way a world calls it: with the 3-tuple from the position table
    hx.reach('called')
    try:
        got = gen((cx, cy, cz), None)
        ok = got is want
    except TypeError:
        ok = False
        got = "TypeError"
    if mode == 'prop':
        return hx.end(ok)
    if ok:
        return hx.end(True)
    # recorded deviating behaviour (F4): TypeError for tables of fewer than 3 dimensions
    return hx.end((dim < 3 and got == "TypeError") or hx.fail("F4: unrecorded behaviour", got=repr(got)))


def constant_generator(v: int, x: int, y: int, z: int) -> bool:
    """
    post: _
    """
    hx.begin()
    hx.reach('called')
    g = Env.ConstantGenerator(v)
    return hx.end(g((x, y, z), None) is v and g(x, None) is v and g.value is v)


BOUNDS = {"worlds": "LineWorld(3), GridWorld(2,2), DiscreteWorld(2,1,2), DiscreteWorld(2,0,2), DiscreteWorld(0,0,0) through the real constructors",
          "sources": "callable with opaque symbolic values, list with solver-chosen element kinds (int, str, float, tuple, None, bool), numpy int array",
          "history": "<= 2/3 add/remove operations over 3 names on two same-shaped worlds", "lookup tables": "1-D (3), 2-D (2x2), 3-D (2x2x2) with symbolic entries"}
OUTSIDE = ["pandas' own behaviour beyond the stubbed contract (dtype inference other than the measured None-among-numbers rule, index alignment, copy-on-write internals)",
           "cell tables larger than 4-8 cells"]
STUBS = ["pandas stand-in vf.stubs.Frame: column assignment (with the measured dtype-inference rule: None among numbers becomes NaN), drop, in, len, iloc, assign, update, concat(axis=1), Series; to_numeric is the real pandas function on a concrete array",
         "functools.lru_cache-wrapped helpers of ECAgent.Environments replaced by a Python-level memo inside patched_pandas()",
         "ECAgent.Environments.pandas replaced by a module whose DataFrame is the contract stand-in described in the module docstring",
         "Model.logger replaced by a no-op logger"]
ASSUMPTIONS = ["pandas stores element i of an assigned sequence for row i, copies lists, and MAY alias ndarrays (worst case)"]


def obligations(tier):
    enc = (Env.DiscreteWorld.__init__, Env.DiscreteWorld.add_cell_component, Env.DiscreteWorld.remove_cell_component,
           Env.LineWorld.__init__, Env.GridWorld.__init__)
    worlds = ["line", "grid", "cube"] if tier == "quick" else ["line", "grid", "cube", "flat_mid", "point"]
    obs = [
        X("sources", sources, parts=[{"world": w, "src": sk} for w in worlds for sk in (0, 2, 3, 4)] +
          [{"world": w, "src": 1, "mut": mu} for w in worlds for mu in ((0, 2) if tier == "quick" else (0, 1, 2, 3))] +
          [{"world": "line", "src": 1, "mut": 1, "alias": True}] + [{"world": w, "src": 0, "sized_callable": True} for w in ("line", "grid")] +
          [{"world": "grid", "src": 2, "mut": 1, "float_array": True}, {"world": "line", "src": 3, "callable_constant": True}] +
          [{"world": "nox", "src": sk} for sk in (0, 2)] + [{"world": "nox", "src": 1, "mut": 0}],
          labels=("callable", "list", "ndarray", "constant", "nested"), labels_for=lambda p: (("callable", "list", "ndarray", "constant", "nested")[p["src"]],),
          timeout=1200, encoded=enc),
        X("none_among_numbers.prop", sources, parts=[{"world": "line", "src": 1, "mut": 0, "mode": "prop"}], labels=("none_among_numbers",),
          labels_for=lambda p: ("none_among_numbers",), timeout=600, encoded=enc, role="finding_prop", finding="F7"),
        X("none_among_numbers.recorded", sources, parts=[{"world": w, "src": 1, "mut": 0, "mode": "recorded"} for w in ("line", "grid")],
          labels=("none_among_numbers",), labels_for=lambda p: ("none_among_numbers",), timeout=600, encoded=enc,
          role="finding_recorded", finding="F7"),
        X("history", history, parts=[{"world": w, "k": k} for w in (("line", "grid") if tier == "quick" else worlds)
                                     for k in ((2,) if tier == "quick" else (2, 3))],
          labels=("added", "removed", "remove_rejected", "add_failed"), timeout=1200, encoded=enc),
        X("history_hostile_names", history, parts=[{"world": w, "k": 2, "names": _HOSTILE} for w in ("line", "grid")],
          labels=("hostile_add", "remove_rejected"), timeout=1200, encoded=enc,
          bounds={"names": "'pos' (the name of the world's own coordinate column) among ordinary names", "history": "2 operations"}),
        X("history_targeted", history, parts=[{"world": "line", "k": 3, "ops": [0, 0, 1]}, {"world": "grid", "k": 3, "ops": [0, 2, 1]}],
          labels=("removed",), timeout=600, encoded=enc, bounds={"history": "add, add, remove with solver-chosen names (one name contains another)"}),
        X("constant_generator", constant_generator, labels=("called",), timeout=120, encoded=(Env.ConstantGenerator.__call__,)),
        X("lookup_direct", lookup_generator, parts=[{"dim": dmn, "mode": "direct"} for dmn in (1, 2, 3)], labels=("called",), timeout=300,
          encoded=(Env.LookupGenerator.__call__,)),
        X("lookup_world_3d", lookup_generator, parts=[{"dim": 3, "mode": "prop"}], labels=("called",), timeout=300,
          encoded=(Env.LookupGenerator.__call__,)),
    ]
    for dmn in (1, 2):
        obs.append(X("lookup_world_%dd.prop" % dmn, lookup_generator, parts=[{"dim": dmn, "mode": "prop"}], labels=("called",), timeout=300,
                     encoded=(Env.LookupGenerator.__call__,), role="finding_prop", finding="F4"))
        obs.append(X("lookup_world_%dd.recorded" % dmn, lookup_generator, parts=[{"dim": dmn, "mode": "recorded"}], labels=("called",),
                     timeout=300, encoded=(Env.LookupGenerator.__call__,), role="finding_recorded", finding="F4"))
    return obs
