"""C02 - a system runs exactly in its start/end/frequency window; one step = +1 (engine X)."""
import sys
import vf.hx as hx
from vf.spec import X
from ECAgent.Core import Model, System, SystemManager


class LogModel(Model):
    __slots__ = ['log']

    def __init__(self):
        super().__init__()
        self.log = []


class S(System):
    def execute(self):
        self.model.log.append((self.id, self.model.systems.timestep))
        if self.model.timestep != self.model.systems.timestep:        # the model-level timestep, as a running system sees it
            self.model.log.append(("model.timestep differs", self.model.timestep))


class SysId(str):
    pass


def _make(kind, m, f, start, end):
    """the system kinds the framework ships, each built the way its signature invites; every kind logs its runs"""
    from ECAgent.Collectors import Collector, AgentCollector, FileCollector

    def note(self):
        self.model.log.append((self.id, self.model.systems.timestep))
    if kind == 'system':
        return S("s", m, frequency=f, start=start, end=end)
    if kind == 'str_subclass_id':        # an identifier that is a string without being exactly `str` (enum member, numpy.str_)
        return S(SysId("s"), m, frequency=f, start=start, end=end)
    if kind == 'positional':
        return S("s", m, 0, f, start, end)
    if kind == 'collector':
        return type("Cl", (Collector,), {"collect": note})("s", m, frequency=f, start=start, end=end)
    if kind == 'collector_positional':
        return type("Cl", (Collector,), {"collect": note})("s", m, -1, f, start, end)
    if kind == 'agent_collector':
        return type("AC", (AgentCollector,), {"collect": note})(m, lambda a: {}, id="s", frequency=f, start=start, end=end)
    if kind == 'file_collector':
        return type("FC", (FileCollector,), {"collect": note, "write_records": lambda self: None})(
            "s", m, "unused.txt", frequency=f, start=start, end=end)
    raise AssertionError(kind)


def window(start: int, end: int, f: int, t0: int) -> bool:
    """
    pre: f >= 1
    post: _
    """
    hx.begin()
    m = LogModel()
    m.systems.add_system(_make(hx.P.get('kind', 'system'), m, f, start, end))
    m.systems.timestep = t0
    if m.timestep != t0:
        return hx.end(hx.fail("model.timestep != scheduler timestep before step"))
    via = hx.P.get('via', 'execute')
    if via == 'execute':
        m.execute()
    elif via == 'execute_systems':            # the scheduler's own entry point (the tutorial's run loop uses it)
        m.systems.execute_systems()
    else:
        import warnings
        warnings.simplefilter("ignore")
        m.systems.executeSystems()            # deprecated alias
    ran = len(m.log)
    should = start <= t0 <= end and (t0 - start) % f == 0
    if should:
        hx.reach('runs')
    else:
        hx.reach('skips')
    if ran != (1 if should else 0):
        return hx.end(hx.fail("ran %d times" % ran, should=should, start=start, end=end, f=f, t=t0))
    if ran == 1 and m.log[0] != ("s", t0):
        return hx.end(hx.fail("system saw wrong timestep", log=m.log))
    if m.systems.timestep != t0 + 1 or m.timestep != t0 + 1:
        return hx.end(hx.fail("timestep after one step", got=m.systems.timestep, exp=t0 + 1))
    return hx.end(True)


def rescheduled(start: int, end: int, t0: int, s_old: int, e_old: int) -> bool:
    """
    post: _
    """
    # the window is the system's own public start/end/frequency AT the timestep in question: a system built with one window and
    # re-scheduled by plain attribute assignment (a subclass constructor fixing its frequency after super().__init__, a user
    # re-scheduling a registered system) follows the new one.  The assignment order and whether it happens before or after
    # registration are the partition; old and new frequency are concrete per partition (linear queries).
    hx.begin()
    f_old, f, order, late = hx.P['f_old'], hx.P['f'], hx.P['order'], hx.P['late']
    m = LogModel()
    s = S("s", m, frequency=f_old, start=s_old, end=e_old)
    if late:
        m.systems.add_system(s)
    for a in order:
        if a == 'f':
            s.frequency = f
        elif a == 's':
            s.start = start
        else:
            s.end = end
    if not late:
        m.systems.add_system(s)
    if (s.start, s.end, s.frequency) != (start, end, f):
        return hx.end(hx.fail("assigned window not readable back", got=(s.start, s.end, s.frequency)))
    m.systems.timestep = t0
    m.execute()
    should = start <= t0 <= end and (t0 - start) % f == 0
    if should:
        hx.reach('runs')
    else:
        hx.reach('skips')
    if len(m.log) != (1 if should else 0):
        return hx.end(hx.fail("ran %d times after re-scheduling" % len(m.log), should=should, start=start, end=end, f=f, t=t0,
                              old=(s_old, e_old, f_old)))
    m.execute()                              # and the following timestep, with the same (new) window
    should2 = start <= t0 + 1 <= end and (t0 + 1 - start) % f == 0
    if len(m.log) != (1 if should else 0) + (1 if should2 else 0):
        return hx.end(hx.fail("second timestep after re-scheduling", log=m.log, start=start, end=end, f=f, t=t0))
    return hx.end(m.timestep == t0 + 2)


def window_k(start: int, end: int, t0: int, k: int, r: int) -> bool:
    """
    pre: 0 <= r < hx.P['f']
    post: _
    """
    # second formulation of the window predicate, not syntactically the code's: t0 - start = k*f + r, 0 <= r < f
    # (f concrete per partition so that the query is linear)
    hx.begin()
    f = hx.P['f']
    if t0 - start != k * f + r:
        return hx.end(True)
    m = LogModel()
    m.systems.add_system(S("s", m, frequency=f, start=start, end=end))
    m.systems.timestep = t0
    m.execute()
    should = (r == 0) and start <= t0 and t0 <= end
    if should:
        hx.reach('runs')
    elif r != 0 and start <= t0 <= end:
        hx.reach('off_phase')
    else:
        hx.reach('outside')
    if len(m.log) != (1 if should else 0):
        return hx.end(hx.fail("ran %d times" % len(m.log), start=start, end=end, f=f, t=t0, k=k, r=r))
    return hx.end(m.timestep == t0 + 1)


def default_end(start: int, f: int, t0: int) -> bool:
    """
    pre: f >= 1
    pre: t0 <= sys.maxsize
    post: _
    """
    hx.begin()
    m = LogModel()
    m.systems.add_system(S("s", m, frequency=f, start=start))      # end left at its default: 'forever'
    m.systems.timestep = t0
    m.execute()
    should = start <= t0 and (t0 - start) % f == 0
    if should:
        hx.reach('runs')
    return hx.end(len(m.log) == (1 if should else 0) and m.timestep == t0 + 1)


def multi_step(start: int, end: int, f: int, t0: int, n: int) -> bool:
    """
    pre: f >= 1
    pre: 1 <= n <= hx.P['N']
    post: _
    """
    hx.begin()
    m = LogModel()
    m.systems.add_system(S("s", m, frequency=f, start=start, end=end))
    m.systems.timestep = t0
    m.execute(n)
    exp = [("s", t) for t in range(t0, t0 + n) if start <= t <= end and (t - start) % f == 0]
    if len(exp) >= 2:
        hx.reach('ran_twice')
    if m.log != exp:
        return hx.end(hx.fail("log of execute(n)", got=m.log, exp=exp))
    if m.timestep != t0 + n or m.systems.timestep != t0 + n:
        return hx.end(hx.fail("timestep after execute(n)", got=m.timestep, exp=t0 + n))
    return hx.end(True)


def multi_vs_single(start: int, end: int, t0: int, n: int) -> bool:
    """
    pre: 1 <= n <= hx.P['N']
    post: _
    """
    # differential: execute(n) == n x execute(); frequency concrete per partition (linear queries)
    hx.begin()
    f = hx.P['f']
    logs = []
    for mode in (0, 1):
        m = LogModel()
        m.systems.add_system(S("s", m, frequency=f, start=start, end=end))
        m.systems.timestep = t0
        if mode == 0:
            m.execute(n)
        else:
            for _ in range(n):
                m.execute()
                if m.timestep != m.systems.timestep:
                    return hx.end(hx.fail("model/scheduler timestep diverge"))
        if m.timestep != t0 + n:
            return hx.end(hx.fail("timestep", mode=mode, got=m.timestep, exp=t0 + n))
        logs.append(m.log)
    if len(logs[0]) >= 2:
        hx.reach('ran_twice')
    if logs[0] != logs[1]:
        return hx.end(hx.fail("execute(n) differs from n x execute()", a=logs[0], b=logs[1]))
    return hx.end(True)


def many_systems(s0: int, e0: int, r0: int, s1: int, e1: int, r1: int, t0: int) -> bool:
    """
    pre: 0 <= r0 <= hx.P['steps'] and 0 <= r1 <= hx.P['steps']
    post: _
    """
    hx.begin()
    steps = hx.P['steps']
    fr = hx.P['f']               # concrete frequencies (linear queries); a third system has a concrete window
    m = LogModel()
    m.systems.timestep = t0
    win = [(s0, e0, fr[0], r0), (s1, e1, fr[1], r1)]
    third = hx.P.get('third')    # (start offset from t0, length, frequency, registration step) or None
    if third is not None:
        win.append((t0 + third[0], t0 + third[0] + third[1], third[2], third[3]))
    # system i is registered just before step number r_i (r_i == steps: never) - also after its start
    for step in range(steps):
        for i, (st, en, f, reg) in enumerate(win):
            if reg == step:
                m.systems.add_system(S("s%d" % i, m, frequency=f, start=st, end=en))
        m.execute()
    for i, (st, en, f, reg) in enumerate(win):
        got = [t for (sid, t) in m.log if sid == "s%d" % i]
        exp = [t for t in range(t0 + reg, t0 + steps) if st <= t <= en and (t - st) % f == 0]
        if reg > 0 and len(exp) > 0 and st < t0 + reg:
            hx.reach('late_registration_runs')
        if got != exp:
            return hx.end(hx.fail("system %d log" % i, got=got, exp=exp, window=(st, en, f), registered_at=t0 + reg))
    return hx.end(m.timestep == t0 + steps)


def ensure_registered(p_lo: int, p_old: int, p_new: int, t0: int) -> bool:
    """
    post: _
    """
    # the "make sure it is registered" idiom: add_system on a system that IS registered, relying on the documented
    # KeyError - also after the system's priority attribute was changed in the meantime.  It still runs exactly once.
    hx.begin()
    m = LogModel()
    m.systems.timestep = t0
    other = S("other", m, priority=p_lo)
    sub = S("sub", m, priority=p_old)
    for s_ in (other, sub):
        s_.start, s_.end = t0, t0 + 1000
        m.systems.add_system(s_)
    sub.priority = p_new
    try:
        m.systems.add_system(sub)
        return hx.end(hx.fail("a registered system was accepted a second time"))
    except KeyError:
        hx.reach('refused')
    m.execute()
    runs = len([e for e in m.log if e[0] == "sub"])
    if runs != 1 or len([e for e in m.log if e[0] == "other"]) != 1:
        return hx.end(hx.fail("a system ran %d times in one timestep after a refused second registration" % runs, log=m.log,
                              priorities=(p_lo, p_old, p_new)))
    return hx.end(m.timestep == t0 + 1)


class Spawner(System):
    """registers another system from inside its own execute() at a given timestep"""
    __slots__ = ['when', 'child']

    def execute(self):
        if self.model.systems.timestep == self.when:
            self.model.systems.add_system(self.child)


def reregister(start: int, end: int, t0: int, r1: int, r2: int) -> bool:
    """
    pre: 0 <= r1 <= r2 <= hx.P['steps']
    post: _
    """
    # a system is removed just before step r1 and registered again (the same object, or a new one with the same id)
    # just before step r2: it runs at exactly its due timesteps while registered - also right after re-registration
    hx.begin()
    steps, f, fresh, chunk = hx.P['steps'], hx.P['f'], hx.P['fresh'], hx.P['chunk']
    m = LogModel()
    m.systems.timestep = t0
    s = S("s", m, frequency=f, start=start, end=end)
    m.systems.add_system(s)
    m.systems.add_system(S("other", m, start=t0, end=t0 + 1000))
    registered = True
    step = 0
    while step < steps:
        if step == r1 and registered:
            m.systems.remove_system("s")          # (r1 == r2: removed and registered again between the same two steps)
            registered = False
        if step == r2 and not registered:
            m.systems.add_system(S("s", m, frequency=f, start=start, end=end) if fresh else s)
            registered = True
        # advance `chunk` steps in one call where no change is scheduled in between
        n = 1
        while n < chunk and step + n < steps and step + n != r1 and step + n != r2:
            n += 1
        m.execute(n)
        step += n
    exp = [("s", t0 + k) for k in range(steps) if (k < r1 or k >= r2) and start <= t0 + k <= end and (t0 + k - start) % f == 0]
    got = [e for e in m.log if e[0] == "s"]
    if r1 <= r2 < steps and len([e for e in exp if e[1] >= t0 + r2]) > 0:
        hx.reach('runs_after_reregistration')
    if got != exp:
        return hx.end(hx.fail("log of a re-registered system", got=got, exp=exp, removed_before_step=r1, readded_before_step=r2))
    if [e[1] for e in m.log if e[0] == "other"] != [t0 + k for k in range(steps)]:
        return hx.end(hx.fail("bystander system skipped or repeated"))
    return hx.end(m.timestep == t0 + steps)


def spawn_inside(start: int, end: int, t0: int, when: int, n: int) -> bool:
    """
    pre: 1 <= n <= hx.P['N']
    pre: 0 <= when < n
    post: _
    """
    # a system registers another one from inside execute(n): from the NEXT timestep on the new system follows its
    # window (whether it already runs in the timestep of its registration is left open)
    hx.begin()
    f, prio = hx.P['f'], hx.P['prio']
    m = LogModel()
    m.systems.timestep = t0
    # (the spawner itself may be on a sparse schedule: due at the moment it spawns, then only every sf-th timestep)
    sp = Spawner("spawner", m, start=t0 + when, end=t0 + 1000, frequency=hx.P.get('sf', 1))
    sp.when = t0 + when
    sp.child = S("child", m, priority=prio, frequency=f, start=start, end=end)
    m.systems.add_system(sp)
    m.execute(n)
    got = [e[1] for e in m.log if e[0] == "child"]
    must = [t for t in range(t0 + when + 1, t0 + n) if start <= t <= end and (t - start) % f == 0]
    may = [t0 + when] if (start <= t0 + when <= end and (t0 + when - start) % f == 0) else []
    if len(must) > 0:
        hx.reach('child_runs_later')
    if got != must and got != may + must:
        return hx.end(hx.fail("system registered during execute(n)", got=got, must_run_at=must, may_also_run_at=may))
    return hx.end(m.timestep == t0 + n)


class Nester(System):
    """steps ANOTHER model from inside its own execute() (nested simulations)"""
    __slots__ = ['inner']

    def execute(self):
        self.model.log.append((self.id, self.model.systems.timestep))
        self.inner.execute()


class Raiser(System):
    __slots__ = ['when']

    def execute(self):
        self.model.log.append((self.id, self.model.systems.timestep))
        if self.model.systems.timestep == self.when:
            self.when = None
            raise RuntimeError("user system failed")


def nested_models(s0: int, e0: int, t0: int, pn: int) -> bool:
    """
    post: _
    """
    # a system of the outer model advances an inner model in every timestep: both models keep exact windows and clocks
    hx.begin()
    steps, f = hx.P['steps'], hx.P['f']
    outer, inner = LogModel(), LogModel()
    outer.systems.timestep = t0
    inner.systems.add_system(S("i0", inner))
    inner.systems.add_system(S("i1", inner, priority=-1))
    nest = Nester("nest", outer, priority=pn, start=t0, end=t0 + 1000)
    nest.inner = inner
    outer.systems.add_system(S("hi", outer, priority=1, start=t0, end=t0 + 1000))
    outer.systems.add_system(nest)
    outer.systems.add_system(S("w", outer, priority=0, frequency=f, start=s0, end=e0))
    outer.systems.add_system(S("lo", outer, priority=-1, start=t0, end=t0 + 1000))
    outer.execute(steps)
    for sid in ("hi", "nest", "lo"):
        if [t for (i, t) in outer.log if i == sid] != [t0 + k for k in range(steps)]:
            return hx.end(hx.fail("an outer system was skipped or repeated while another model was stepped from inside",
                                  system=sid, log=outer.log))
    expw = [t0 + k for k in range(steps) if s0 <= t0 + k <= e0 and (t0 + k - s0) % f == 0]
    if len(expw) > 0:
        hx.reach('window_runs')
    if [t for (i, t) in outer.log if i == "w"] != expw:
        return hx.end(hx.fail("windowed outer system", got=[t for (i, t) in outer.log if i == "w"], exp=expw))
    if inner.log != [(i, k) for k in range(steps) for i in ("i0", "i1")]:
        return hx.end(hx.fail("inner model", log=inner.log))
    return hx.end(outer.timestep == t0 + steps and inner.timestep == steps)


def after_exception(t0: int, when: int) -> bool:
    """
    pre: 0 <= when < hx.P['steps']
    post: _
    """
    # a user system raises once; the caller handles the error and keeps using the model: every later request advances
    # the clock by exactly one and runs the due systems
    hx.begin()
    steps = hx.P['steps']
    m = LogModel()
    m.systems.timestep = t0
    r = Raiser("r", m, priority=5, start=t0, end=t0 + 1000)     # first in the queue: nothing ran before it in the failed step
    r.when = t0 + when
    m.systems.add_system(r)
    m.systems.add_system(S("s", m, start=t0, end=t0 + 1000))
    done = 0
    failed = False
    while done < steps + 1:
        before = m.timestep
        try:
            m.execute()
        except RuntimeError:
            failed = True
            hx.reach('raised')
            done += 1
            continue                       # (whether the failed request itself advanced the clock is not claimed)
        if m.timestep != before + 1:
            return hx.end(hx.fail("a request after a handled error did not advance the clock by one", before=before,
                                  after=m.timestep, error_was_raised=failed))
        if ("s", before) not in m.log:
            return hx.end(hx.fail("a due system did not run in a step after a handled error", timestep=before))
        done += 1
    return hx.end(failed)


_BAD = [True, False, 1.0, 2.5, "1", None, [1], (1,)]


def reject_n(n: int, which: int, t0: int) -> bool:
    """
    pre: 0 <= which <= len(_BAD)
    post: _
    """
    hx.begin()
    m = LogModel()
    m.systems.add_system(S("s", m))
    m.systems.timestep = t0
    if which == len(_BAD):
        arg = n
        if n >= 1:
            return hx.end(True)
        exp = ValueError
        hx.reach('nonpositive')
    else:
        arg = _BAD[which]
        exp = TypeError
        hx.reach('nonint')
    try:
        m.execute(arg)
        return hx.end(hx.fail("invalid n accepted", n=arg))
    except exp:
        pass
    return hx.end(m.log == [] and m.timestep == t0 and m.systems.timestep == t0)


BOUNDS = {"quick": {"systems": "<= 3", "steps per call": "<= 4", "start,end,frequency,timestep": "all ints, frequency >= 1"},
          "thorough": {"systems": "<= 3", "steps per call": "<= 6", "start,end,frequency,timestep": "all ints, frequency >= 1"}}
OUTSIDE = ["frequency <= 0 (excluded by the property)", "start/end that are not ints", "more than 3 systems with distinct windows at once",
           "n beyond the per-call bound (each step is covered by the single-step obligation `window` for every timestep)"]
STUBS = []
ASSUMPTIONS = ["the scheduler's timestep may be any int (set directly) - covers every timestep a run can reach",
               "test systems log (id, scheduler timestep)"]


def obligations(tier):
    N = 4 if tier == "quick" else 6
    F = 6 if tier == "quick" else 12
    enc = (SystemManager.execute_systems, Model.execute, Model.__getattr__)
    ms = [{"steps": 2, "f": [1, 2]}, {"steps": 2, "f": [3, 1]}, {"steps": 3, "f": [2, 3]},
          {"steps": 2, "f": [2, 2], "third": [0, 1, 1, 0]}, {"steps": 2, "f": [1, 3], "third": [1, 5, 2, 1]}]
    if tier != "quick":
        ms += [{"steps": 3, "f": [1, 1]}, {"steps": 3, "f": [3, 2]}, {"steps": 4, "f": [2, 3]},
               {"steps": 3, "f": [2, 1], "third": [-1, 4, 2, 1]}, {"steps": 3, "f": [4, 2], "third": [0, 0, 1, 2]}]
    return [
        X("window", window, parts=[{"kind": k} for k in ("system", "positional", "collector", "collector_positional",
                                                         "agent_collector", "file_collector", "str_subclass_id")] + [{"kind": "system", "via": v} for v in ("execute_systems", "alias")],
          labels=("runs", "skips"), timeout=120, encoded=enc + (System.__init__,),
          bounds={"start,end,frequency,timestep": "all ints, frequency >= 1",
                  "system kinds": "System, Collector, AgentCollector, FileCollector (window passed by keyword / positionally)"}),
        X("window_k", window_k, parts=[{"f": f} for f in range(1, F + 1)], labels=("runs", "off_phase", "outside"),
          timeout=120, group=2, encoded=enc, bounds={"frequency": "1..%d (concrete per partition)" % F, "start,end,timestep,k": "all ints"}),
        X("rescheduled", rescheduled,
          parts=[{"f_old": fo, "f": f, "order": o, "late": l} for fo, f, o, l in
                 (((1, 2, "sfe", False), (3, 2, "fse", True), (2, 3, "esf", True), (1, 1, "fes", False)) if tier == "quick" else
                  ((1, 2, "sfe", False), (3, 2, "fse", True), (2, 3, "esf", True), (1, 1, "fes", False), (2, 4, "sef", True),
                   (4, 2, "efs", False), (5, 3, "fse", False), (1, 3, "f", True), (2, 1, "sf", True)))],
          labels=("runs", "skips"), timeout=300, encoded=enc + (System.__init__,),
          bounds={"old and new start/end, timestep": "all ints", "old/new frequency, assignment order, before/after registration": "concrete per partition"}),
        X("default_end", default_end, labels=("runs",), timeout=120, encoded=enc + (System.__init__,)),
        X("multi_step", multi_step, parts=[{"N": min(N, 5)}], labels=("ran_twice",), timeout=900, encoded=enc, bounds={"n": "1..%d" % min(N, 5)}),
        X("multi_vs_single", multi_vs_single, parts=[{"N": N, "f": f} for f in (1, 2, 3)], labels=("ran_twice",),
          timeout=600, encoded=enc, bounds={"n": "1..%d" % N, "frequency": "1..3 (concrete per partition)"}),
        X("many_systems", many_systems, parts=ms, labels=("late_registration_runs",), timeout=600,
          encoded=enc + (SystemManager.add_system,),
          bounds={"systems": "2 symbolic windows (+1 concrete)", "steps": "<= %d" % (3 if tier == "quick" else 4),
                  "frequencies": "concrete per partition"}),
        X("reregister", reregister,
          parts=[{"steps": st, "f": f, "fresh": fr, "chunk": ch} for st, f, fr, ch in
                 (((3, 1, False, 1), (3, 2, True, 1), (4, 1, True, 3)) if tier == "quick" else
                  ((3, 1, False, 1), (3, 2, True, 1), (4, 1, True, 3), (4, 2, False, 2), (5, 3, True, 1), (5, 1, False, 4)))],
          labels=("runs_after_reregistration",), timeout=900, encoded=enc + (SystemManager.add_system, SystemManager.remove_system),
          bounds={"steps": "<= %d" % (4 if tier == "quick" else 5), "window, timestep": "all ints", "frequency": "concrete per partition"}),
        X("spawn_inside", spawn_inside, parts=[{"N": N, "f": f, "prio": pr} for f, pr in ((1, 0), (2, 5), (1, -3))] + [{"N": N, "f": 1, "prio": 0, "sf": 4}],
          labels=("child_runs_later",), timeout=900, encoded=enc + (SystemManager.add_system,),
          bounds={"n": "1..%d" % N, "child priority": "0, 5, -3 (spawner 0)"}),
        X("nested_models", nested_models, parts=[{"steps": 2, "f": 1}, {"steps": 3, "f": 2}], labels=("window_runs",), timeout=900,
          encoded=enc, bounds={"steps": "2..3", "nesting system priority, window, timestep": "all ints"}),
        X("after_exception", after_exception, parts=[{"steps": 3}], labels=("raised",), timeout=600, encoded=enc),
        X("ensure_registered", ensure_registered, labels=("refused",), timeout=120, encoded=enc + (SystemManager.add_system,),
          bounds={"priorities": "all ints (old, new, bystander)"}),
        X("reject_n", reject_n, labels=("nonpositive", "nonint"), timeout=120, encoded=(Model.execute,)),
    ]
