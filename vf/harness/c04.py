"""C04 - the environment holds exactly the live agents; failed operations leave no trace (engine X).

Invariant I4: `agents` is an insertion-ordered map id -> agent, one per id, equal to the reference list of joined and
not yet removed agents; in spatial worlds every resident has exactly one PositionComponent, non-residents none.
"""
import vf.hx as hx
from vf.spec import X, K
from ECAgent.Core import (Model, Agent, Component, Environment, SystemManager, DuplicateAgentError,
                          AgentNotFoundError)
import ECAgent.Environments as Env


class T1(Component):
    pass


_REAL = {}


def _real():
    if not _REAL:
        _REAL['grid'] = Env.GridWorld(Model(), 4, 3)
        _REAL['line'] = Env.LineWorld(Model(), 5)
        _REAL['discrete'] = Env.DiscreteWorld(Model(), 3, 2, 2)


_real()


def _world(m, kind, w=0, h=0, d=0):
    if kind == 'plain':
        return m.environment
    if kind == 'space':            # continuous: offset 0
        env = Env.SpaceWorld(m, w, h, d)
    elif kind == 'gridlike':       # generic grid arithmetic with symbolic extents: offset 1
        env = Env.SpaceWorld(m, w, h, d)
        env._index_offset = 1
    else:
        env = _REAL[kind]
        env.agents.clear()
        env.components.clear()
        env.set_model(m)
    m.environment = env
    return env


def _snapshot(m, env, everyone):
    return (list(env.agents.items()),
            [(a, list(a.components.items())) for a in everyone],
            [(T, v, list(v)) for T, v in m.systems.component_pools.items()])


def _unchanged(m, env, snap):
    items, comps, pools = snap
    now = list(env.agents.items())
    if len(now) != len(items):
        return hx.fail("environment membership changed by a rejected operation")
    for (k, v), (ek, ev) in zip(now, items):
        if k != ek or v is not ev:
            return hx.fail("environment membership/order changed by a rejected operation")
    for a, cs in comps:
        cur = list(a.components.items())
        if len(cur) != len(cs):
            return hx.fail("agent's components changed by a rejected operation", agent=a.id,
                           now=[t.__name__ for t in a.components])
        for (t, c), (et, ec) in zip(cur, cs):
            if t is not et or c is not ec:
                return hx.fail("agent's components changed by a rejected operation", agent=a.id)
    cur = list(m.systems.component_pools.items())
    if len(cur) != len(pools):
        return hx.fail("component listings changed by a rejected operation")
    for (t, v), (et, ev, econt) in zip(cur, pools):
        if t is not et or v is not ev or not hx.same_seq(v, econt):
            return hx.fail("component listings changed by a rejected operation")
    return True


def _agree(env, ref, probe_ids):
    """lookup by id, length, iteration and listing all agree with the reference list"""
    if len(env) != len(ref):
        return hx.fail("len", got=len(env), exp=len(ref))
    if not hx.same_seq(list(env), ref):
        return hx.fail("iteration order", got=[a.id for a in env], exp=[a.id for a in ref])
    lst = env.get_agents()
    if not hx.same_seq(lst, ref):
        return hx.fail("get_agents()", got=[a.id for a in lst])
    # the listing is the caller's to modify, and shuffling returns its own list: neither disturbs later listings
    lst.reverse()
    lst.append(None)
    env.model.random = _FixedRandom()
    env.shuffle()
    if not hx.same_seq(env.get_agents(), ref):
        return hx.fail("get_agents() after the caller modified an earlier listing / after shuffle()",
                       got=[getattr(a, "id", a) for a in env.get_agents()], exp=[a.id for a in ref])
    for pid in probe_ids:
        exp = None
        for a in ref:
            if a.id == pid:
                exp = a
        if env.get_agent(pid) is not exp:
            return hx.fail("get_agent", id=pid)
        if exp is not None:
            if env.get_agent(pid, True) is not exp:
                return hx.fail("strict get_agent", id=pid)
        else:
            try:
                env.get_agent(pid, True)
                return hx.fail("strict lookup of unknown id did not raise", id=pid)
            except AgentNotFoundError:
                pass
    return True


class _FixedRandom:
    """model generator for _agree(): shuffle reverses (a fixed, non-identity permutation)"""

    def shuffle(self, x):
        x.reverse()

    def choice(self, seq):
        return seq[-1]


IDS = ["i0", "i1", "i2", "i3"]


class AgentId(str):
    """an identifier that is a string without being exactly `str` and that prints differently from its value
    (what a member of `class Role(str, Enum)` does)"""

    def __str__(self):
        return "AgentId.%s" % str.__str__(self).upper()


def _I(name):
    """identifier `name` in the identifier type of the partition (default: plain str)"""
    return AgentId(name) if hx.P.get('idtype') == 'strsub' else name


def _prestate(m, env, r, flags, spatial):
    res = []
    for i in range(r):
        a = Agent(_I(IDS[i]), m)
        if flags[i]:
            a.add_component(T1(a, m))
        if spatial:
            a.add_component(Env.PositionComponent(a, m, 0, 0, 0))
        env.agents[a.id] = a
        res.append(a)
    pool = [a.components[T1] for a in res if T1 in a.components]
    if pool:
        m.systems.component_pools[T1] = pool
    return res


def ids_step(c0: bool, c1: bool, c2: bool, c3: bool, cn: bool, j: int) -> bool:
    """
    pre: -1 <= j < hx.P['r']
    post: _
    """
    hx.begin()
    r, op, kind = hx.P['r'], hx.P['op'], hx.P['world']
    spatial = kind != 'plain'
    m = Model()
    env = _world(m, kind, 5, 4, 3)
    ref = _prestate(m, env, r, [c0, c1, c2, c3], spatial)
    if hx.P.get('completed'):
        m.complete()            # post-run bookkeeping on a finished model: membership and listings still follow
    probe = [_I(x) for x in IDS + ["ghost", "new"]]
    if hx.P.get('alias'):
        # the deprecated camelCase entry points denote the same operations
        import warnings
        warnings.simplefilter("ignore")
        add_agent, remove_agent, get_agent = env.addAgent, env.removeAgent, env.getAgent
    else:
        add_agent, remove_agent, get_agent = env.add_agent, env.remove_agent, env.get_agent
    target_id = _I("ghost" if j < 0 else IDS[0] if j == 0 else IDS[1] if j == 1 else IDS[2] if j == 2 else IDS[3])
    if op == 'add':
        # (partition 'foreign': the newcomer was built for ANOTHER model - e.g. it migrates between two simulations;
        # what counts is the environment it joins)
        home = Model() if hx.P.get('foreign') else m
        if hx.P.get('nested_newcomer'):
            # environments are agents too: a sub-environment (a nest, a patch) carrying a component joins like any agent
            new = Environment(home, id=_I("new") if j < 0 else target_id)
        else:
            new = Agent(_I("new") if j < 0 else target_id, home)
        if cn:
            new.add_component(T1(new, home))
        snap = _snapshot(m, env, ref + [new])
        if j >= 0:
            hx.reach('rejected')
            try:
                add_agent(new)
                return hx.end(hx.fail("duplicate id accepted", id=new.id))
            except DuplicateAgentError:
                pass
            if _unchanged(m, env, snap) is not True:
                return hx.end(False)
        else:
            hx.reach('accepted')
            add_agent(new)
            ref = ref + [new]
            if spatial and Env.PositionComponent not in new:
                return hx.end(hx.fail("accepted agent has no position"))
    elif op == 'remove':
        snap = _snapshot(m, env, ref)
        if j < 0:
            hx.reach('rejected')
            try:
                remove_agent(target_id)
                return hx.end(hx.fail("unknown id removed"))
            except AgentNotFoundError:
                pass
            if _unchanged(m, env, snap) is not True:
                return hx.end(False)
        else:
            hx.reach('accepted')
            gone = hx.pick(ref, j)
            remove_agent(target_id)             # removing a present agent always succeeds
            ref = [a for a in ref if a is not gone]
            if spatial and Env.PositionComponent in gone:
                return hx.end(hx.fail("leaver keeps its position"))
            if (T1 in gone) != (len(gone.components) == 1):
                return hx.end(hx.fail("leaver's own components altered"))
    else:  # lookups never change anything
        snap = _snapshot(m, env, ref)
        if op == 'get':
            got = get_agent(target_id)
            exp = None if j < 0 else hx.pick(ref, j)
            hx.reach('accepted' if j >= 0 else 'rejected')
            if got is not exp:
                return hx.end(hx.fail("get_agent", id=target_id))
        else:
            if j < 0:
                hx.reach('rejected')
                try:
                    get_agent(target_id, True)
                    return hx.end(hx.fail("strict lookup of unknown id returned"))
                except AgentNotFoundError:
                    pass
            else:
                hx.reach('accepted')
                if get_agent(target_id, True) is not hx.pick(ref, j):
                    return hx.end(hx.fail("strict get_agent", id=target_id))
        if _unchanged(m, env, snap) is not True:
            return hx.end(False)
    if _agree(env, ref, probe) is not True:
        return hx.end(False)
    # listings follow membership
    exp_pool = [a.components[T1] for a in ref if T1 in a.components]
    got_pool = m.systems[T1]
    if (got_pool is None) != (len(exp_pool) == 0) or (got_pool is not None and not hx.same_seq(got_pool, exp_pool)):
        return hx.end(hx.fail("component listing after operation"))
    return hx.end(True)


def modelless(j: int, op: int) -> bool:
    """
    pre: -1 <= j < 3 and 0 <= op < 4
    post: _
    """
    # an environment used stand-alone, without a model (the test suite does so): membership, lookups and their documented
    # errors do not depend on a model being there (agents carry no components - registering those needs a scheduler)
    hx.begin()
    kind = hx.P['world']
    env = Environment(None) if kind == 'plain' else Env.SpaceWorld(None, 5, 4, 3)
    ref = []
    for i in range(3):
        a = Agent(IDS[i], None)
        if kind == 'plain':
            env.add_agent(a)
        else:
            env.add_agent(a, i, 1, 0)
        ref.append(a)
    target_id = "ghost" if j < 0 else IDS[0] if j == 0 else IDS[1] if j == 1 else IDS[2]
    if op == 0:
        if j < 0:
            hx.reach('rejected')
            try:
                env.remove_agent(target_id)
                return hx.end(hx.fail("unknown id removed"))
            except AgentNotFoundError:
                pass
        else:
            hx.reach('accepted')
            gone = hx.pick(ref, j)
            env.remove_agent(target_id)
            ref = [a for a in ref if a is not gone]
    elif op == 1:
        got = env.get_agent(target_id)
        if got is not (None if j < 0 else hx.pick(ref, j)):
            return hx.end(hx.fail("get_agent on a model-less environment", id=target_id))
    elif op == 2:
        if j < 0:
            hx.reach('rejected')
            try:
                env.get_agent(target_id, True)
                return hx.end(hx.fail("strict lookup of unknown id returned"))
            except AgentNotFoundError:
                pass
        elif env.get_agent(target_id, True) is not hx.pick(ref, j):
            return hx.end(hx.fail("strict get_agent on a model-less environment"))
    else:
        new = Agent("new", None)
        env.add_agent(new)
        ref = ref + [new]
    if len(env) != len(ref) or not hx.same_seq(list(env), ref) or not hx.same_seq(env.get_agents(), ref):
        return hx.end(hx.fail("membership of a model-less environment", got=[a.id for a in env], exp=[a.id for a in ref]))
    return hx.end(True)


def spatial_bounds(w: int, h: int, d: int, x: int, y: int, z: int, c0: bool, cn: bool, dup: bool) -> bool:
    """
    pre: w >= 0 and h >= 0 and d >= 0
    post: _
    """
    hx.begin()
    kind = hx.P['world']
    m = Model()
    env = _world(m, kind, w, h, d)
    if hx.P.get('wrap'):
        env.wrap_env = True          # a toroidal world bounds PLACEMENT like any other (only relative moves wrap)
    off = 0 if kind == 'space' else 1
    ww, hh, dd = env.width, env.height, env.depth
    ref = _prestate(m, env, 1, [c0], True)
    new = Agent("i0" if dup else "new", m)
    if cn:
        new.add_component(T1(new, m))
    snap = _snapshot(m, env, ref + [new])
    inside = True
    if ww > 0 and not (0 <= x <= ww - off):
        inside = False
    if hh > 0 and not (0 <= y <= hh - off):
        inside = False
    if dd > 0 and not (0 <= z <= dd - off):
        inside = False
    raised = None
    try:
        env.add_agent(new, x, y, z)
    except DuplicateAgentError:
        raised = 'dup'
    except Exception as e:
        raised = 'plain' if type(e) is Exception else repr(type(e))
    if not inside:
        hx.reach('out_of_bounds')
        if raised != 'plain':
            return hx.end(hx.fail("out-of-bounds placement not rejected with the documented error", raised=raised,
                                  pos=(x, y, z), extents=(ww, hh, dd)))
        return hx.end(_unchanged(m, env, snap) is True)
    if dup:
        hx.reach('duplicate')
        if raised != 'dup':
            return hx.end(hx.fail("duplicate id in spatial world", raised=raised))
        return hx.end(_unchanged(m, env, snap) is True)
    hx.reach('placed')
    if raised is not None:
        return hx.end(hx.fail("in-range placement rejected", raised=raised, pos=(x, y, z), extents=(ww, hh, dd)))
    p = new[Env.PositionComponent]
    if p is None or p.x != x or p.y != y or p.z != z:
        return hx.end(hx.fail("position after placement"))
    return hx.end(_agree(env, ref + [new], ["i0", "new", "ghost"]) is True)


def placement_half(nx: int, ny: int, same: bool) -> bool:
    """
    post: _
    """
    # (1) non-integral coordinates in REAL grid worlds: positions are exact rationals n/2 (fractions.Fraction keeps the
    #     arithmetic on symbolic ints linear); a point less than one cell outside the grid is outside the grid
    # (2) adding a RESIDENT AGENT OBJECT again is rejected and changes nothing - not even its position
    from fractions import Fraction
    hx.begin()
    kind = hx.P['world']
    m = Model()
    env = _world(m, kind)
    ww, hh = env.width, env.height
    x, y = Fraction(nx, 2), (Fraction(ny, 2) if hh > 0 else 0)
    inside = (0 <= x <= ww - 1) and (hh == 0 or 0 <= y <= hh - 1)
    a = Agent("a", m)
    a.add_component(T1(a, m))
    snap = _snapshot(m, env, [a])
    raised = None
    try:
        env.add_agent(a, x, y)
    except Exception as e:
        raised = 'plain' if type(e) is Exception else type(e).__name__
    if not inside:
        hx.reach('outside_by_less_than_a_cell' if (-1 < x < ww and (hh == 0 or -1 < y < hh)) else 'far_outside')
        if raised != 'plain':
            return hx.end(hx.fail("placement outside the grid not rejected", pos=(x, y), extents=(ww, hh), raised=raised))
        return hx.end(_unchanged(m, env, snap) is True)
    hx.reach('placed')
    p = a[Env.PositionComponent]
    if raised is not None or p is None or p.x != x or p.y != y:
        return hx.end(hx.fail("in-range placement must land exactly where requested", pos=(x, y), raised=raised,
                              got=None if p is None else (p.x, p.y)))
    # second add of the same object (same=True) or of another object with the taken id
    again = a if same else Agent("a", m)
    snap2 = _snapshot(m, env, [a, again])
    pos_before = (p.x, p.y, p.z)
    try:
        env.add_agent(again, 0, 0)
        return hx.end(hx.fail("second add of a resident accepted"))
    except DuplicateAgentError:
        pass
    if _unchanged(m, env, snap2) is not True:
        return hx.end(False)
    q = a[Env.PositionComponent]
    if q is not p or (q.x, q.y, q.z) != pos_before:
        return hx.end(hx.fail("rejected second add changed the resident's position", before=pos_before, after=(q.x, q.y, q.z)))
    return hx.end(True)


def k_spatial_bounds_fp(ctx):
    from vf import kq_spatial
    return kq_spatial.place_fp(ctx)


def _pool(m):
    a = [Agent("a", m), Agent("b", m), Agent("c", m), Agent("a", m)]
    a[1].add_component(T1(a[1], m))
    a[3].add_component(T1(a[3], m))
    return a


def history(i0: int, i1: int, i2: int, i3: int) -> bool:
    """
    pre: 0 <= i0 < 4 and 0 <= i1 < 4 and 0 <= i2 < 4 and 0 <= i3 < 4
    post: _
    """
    hx.begin()
    ops, kind = hx.P['ops'], hx.P['world']
    m = Model()
    env = _world(m, kind, 3, 0, 2)
    pool = _pool(m)
    ref = []
    idx = [i0, i1, i2, i3]
    for k, op in enumerate(ops):
        a = hx.pick(pool, idx[k])
        taken = None
        for x in ref:
            if x.id == a.id:
                taken = x
        snap = _snapshot(m, env, pool)
        if op == 'a':
            if taken is not None:
                hx.reach('add_rejected')
                try:
                    env.add_agent(a)
                    return hx.end(hx.fail("duplicate accepted", step=k))
                except DuplicateAgentError:
                    pass
                if _unchanged(m, env, snap) is not True:
                    return hx.end(False)
            else:
                hx.reach('added')
                env.add_agent(a)
                ref.append(a)
        elif op == 'r':
            if taken is None:
                hx.reach('remove_rejected')
                try:
                    env.remove_agent(a.id)
                    return hx.end(hx.fail("unknown removed", step=k))
                except AgentNotFoundError:
                    pass
                if _unchanged(m, env, snap) is not True:
                    return hx.end(False)
            else:
                hx.reach('removed')
                env.remove_agent(a.id)
                ref = [x for x in ref if x is not taken]
        else:
            if taken is None:
                try:
                    env.get_agent(a.id, True)
                    return hx.end(hx.fail("strict lookup", step=k))
                except AgentNotFoundError:
                    pass
            elif env.get_agent(a.id, True) is not taken:
                return hx.end(hx.fail("lookup", step=k))
            hx.reach('looked_up')
            if _unchanged(m, env, snap) is not True:
                return hx.end(False)
        if _agree(env, ref, ["a", "b", "c", "zz"]) is not True:
            return hx.end(False)
        exp_pool = [x.components[T1] for x in ref if T1 in x.components]
        got_pool = m.systems[T1]
        if (got_pool is None) != (len(exp_pool) == 0) or (got_pool is not None and not hx.same_seq(got_pool, exp_pool)):
            return hx.end(hx.fail("component listing", step=k))
        if kind != 'plain':
            for x in pool:
                inref = False
                for y in ref:
                    if y is x:
                        inref = True
                if (Env.PositionComponent in x) != inref:
                    return hx.end(hx.fail("position component presence != residency", step=k, agent=x.id))
    return hx.end(True)


def _hist_parts(k, worlds):
    import itertools
    out = []
    for w in worlds:
        for t in itertools.product("arg", repeat=k):
            s = "".join(t)
            if s.count('a') == 0 or s[-1] == 'g' and k > 2 and s.count('g') > 1:
                continue
            out.append({"ops": s, "world": w})
    return out


def _hist_labels(p):
    last = p["ops"][-1]
    return {"a": ("added",), "r": ("remove_rejected",), "g": ("looked_up",)}[last] + \
        (("removed",) if 'r' in p["ops"][1:] and 'a' in p["ops"][:p["ops"].rindex('r')] else ()) + \
        (("add_rejected",) if p["ops"].count('a') >= 2 else ())


BOUNDS = {"quick": {"residents": "<= 4", "history": "<= 3 operations over a pool of 4 agents (one colliding id)"},
          "thorough": {"residents": "<= 4", "history": "<= 4 operations over a pool of 4 agents (one colliding id)"},
          "extents, positions": "all ints (extents >= 0)"}
OUTSIDE = ["agents whose component sets change while resident (C03)", "an agent resident in two environments at once",
           "float positions/extents (see spatial_bounds_fp, engine K)"]
STUBS = ["real GridWorld/LineWorld/DiscreteWorld built once concretely; agents/components/model reset per path"]
ASSUMPTIONS = ["pre-states are arbitrary I4 states (distinct ids, pools consistent) written directly"]


def obligations(tier):
    enc = (Environment.add_agent, Environment.remove_agent, Environment.get_agent, Environment.get_agents,
           Environment.__len__, Environment.__iter__)
    senc = enc + (Env.SpaceWorld.add_agent, Env.SpaceWorld.remove_agent)
    parts = [{"r": r, "op": op, "world": "plain"} for r in (0, 2, 4) for op in ("add", "remove", "get", "get_strict")]
    parts += [{"r": 3, "op": op, "world": w} for w in ("space", "grid") for op in ("add", "remove")]
    parts += [{"r": 2, "op": op, "world": w, "alias": True} for w in ("plain", "space") for op in ("add", "remove", "get", "get_strict")]
    parts += [{"r": 2, "op": op, "world": w, "completed": True} for w in ("plain", "space") for op in ("add", "remove")]
    parts += [{"r": 2, "op": "add", "world": w, "foreign": True} for w in ("plain", "space")]
    parts += [{"r": 2, "op": op, "world": "plain", "nested_newcomer": True} for op in ("add",)]
    parts += [{"r": 2, "op": op, "world": w, "idtype": "strsub"} for w in ("plain", "space") for op in ("add", "remove", "get", "get_strict")]
    if tier != "quick":
        parts += [{"r": r, "op": op, "world": "plain"} for r in (1, 3) for op in ("add", "remove", "get", "get_strict")]
        parts += [{"r": 2, "op": op, "world": w} for w in ("line", "discrete", "gridlike") for op in ("add", "remove")]
    worlds = ["space", "gridlike", "grid"] if tier == "quick" else ["space", "gridlike", "grid", "line", "discrete"]
    k = 3 if tier == "quick" else 4
    return [
        X("ids_step", ids_step, parts=parts, labels=("accepted", "rejected"),
          labels_for=lambda p: ("accepted", "rejected") if p["r"] else ("accepted",) if p["op"] == "add" else ("rejected",),
          timeout=300, group=2, encoded=senc, bounds={"residents": "0..4", "component flag per agent": "symbolic"}),
        X("modelless", modelless, parts=[{"world": w} for w in ("plain", "space")], labels=("accepted", "rejected"), timeout=300, encoded=senc,
          bounds={"residents": "3 component-less agents", "operation": "remove / get / strict get of any resident or an unknown id, add"}),
        X("spatial_bounds", spatial_bounds, parts=[{"world": w} for w in worlds] + [{"world": w, "wrap": True} for w in ("space", "gridlike")], labels=("out_of_bounds", "duplicate", "placed"),
          timeout=600, encoded=senc, bounds={"extents": "all ints >= 0 (symbolic for space/gridlike)", "position": "all ints"}),
        X("history", history, parts=_hist_parts(k, ["plain"]) + _hist_parts(k if tier != "quick" else 2, ["space"]),
          labels=("added", "add_rejected", "removed", "remove_rejected", "looked_up"), labels_for=_hist_labels,
          timeout=300, group=3, encoded=senc, bounds={"history": "<= %d operations" % k}),
        X("placement_half", placement_half, parts=[{"world": w} for w in ("grid", "line", "discrete")],
          labels=("outside_by_less_than_a_cell", "far_outside", "placed"), timeout=600, encoded=senc,
          bounds={"coordinates": "all half-integers n/2 (exact rationals)", "worlds": "real GridWorld(4,3), LineWorld(5), DiscreteWorld(3,2,2)"}),
        K("spatial_bounds_fp", k_spatial_bounds_fp, timeout=300, encoded=(Env.SpaceWorld.add_agent,),
          bounds={"doubles": "all finite positions; extents 0 or >= 1 (continuous world)"}),
    ]
