"""C20 - class components and default tags belong to exactly one agent class (engine X)."""
import vf.hx as hx
from vf.spec import X
from vf.stubs import NULL_LOGGER
from ECAgent.Core import Model, Agent, Component, Environment, _MetaAgent, ComponentNotFoundError


class K1(Component):
    pass


class K2(Component):
    """a component that is falsy as an object (container-like, currently empty)"""

    def __len__(self):
        return 0


class K1d(K1):
    """a component type DERIVED from K1: a different type (a class that holds a K1d does not thereby hold a K1)"""


KT = [K1, K2]
KT3 = [K1, K2, K1d]


def _hierarchy():
    """Fresh hierarchy per path; Agent's and Environment's own class-level stores are reset."""
    Agent._components.clear()
    Agent._tag = 0
    Environment._components.clear()
    Environment._tag = 0

    class A(Agent):
        pass

    class C(A):
        pass

    class S(Agent):
        pass

    class G(C):
        pass

    class E(Environment):
        pass
    return [Agent, A, C, S, G, E]


import numpy as _np
_NP_TAG = _np.int64(7)


# two classes built dynamically with type(name, bases, namespace) from ONE shared attribute dict.  Built once, at import,
# outside the symbolic run: CrossHair intercepts the 3-argument type() and hands it a copy of the namespace, which hides
# exactly the sharing this pair is about (measured).  Their class-level stores are cleared at the start of every path.
_NS = {"kind": "worker"}
_DYNAMIC_TWINS = (type("Harvester", (Agent,), _NS), type("Carrier", (Agent,), _NS))


def _factory_made():
    class Worker(Agent):
        pass
    return Worker


def _len(cls):
    # len(cls) dispatches to the metaclass's __len__; CrossHair's patched len() looks __len__ up on the class itself
    # and finds Agent.__len__ (instance method) - call what real Python calls
    return type(cls).__len__(cls)


def _view(classes):
    """Everything observable through each class: membership, lookup, length, default tag."""
    out = []
    for cls in classes:
        out.append((K1 in cls, K2 in cls, cls[K1], cls[K2], _len(cls), cls.has_class_component(K1, K2),
                    cls.get_class_component(K1), cls.tag))
    return out


def _same_view(a, b, except_idx=None):
    for i, (x, y) in enumerate(zip(a, b)):
        if i == except_idx:
            continue
        if len(x) != len(y):
            return False
        for u, v in zip(x, y):
            if u is not v and u != v:
                return False
    return True


def class_component_step(ft: int, fr: int, fo: int, ti: int, inst_has: bool, oi: int = 0) -> bool:
    """
    pre: 0 <= ft < 4 and 0 <= fr < 4 and 0 <= fo < 4
    pre: 0 <= ti < 2
    pre: 0 <= oi < hx.P.get('owners', 1)
    pre: hx.P.get('ti') is None or ti == hx.P['ti']
    pre: hx.P.get('ih') is None or inst_has == hx.P['ih']
    post: _
    """
    hx.begin()
    op, ci = hx.P['op'], hx.P['ci']
    classes = _hierarchy()
    m = Model(logger=NULL_LOGGER)
    # component state of the target class (ft), of its relatives in the inheritance chain (fr), of all others (fo)
    chain = [{0, 1, 2, 3, 4, 5}, {0, 1, 2, 4}, {0, 1, 2, 4}, {0, 3}, {0, 1, 2, 4}, {0, 5}][ci]
    flags = [ft if i == ci else fr if i in chain else fo for i in range(6)]
    # arbitrary pre-state: per class a symbolic subset of {K1,K2}, written directly into the class-level store
    own = []
    for i, cls in enumerate(classes):
        d = {}
        if flags[i] % 2 == 1:
            d[K1] = K1(cls, m)
        if flags[i] >= 2:
            d[K2] = K2(cls, m)
        cls._components.clear()
        cls._components.update(d)
        own.append(dict(d))
    cls = classes[ci]
    T = hx.pick(KT, ti)
    inst = classes[2]("i", m)                 # an instance of C
    env_inst = classes[5](m)                  # an instance of E (environments are agents too)
    if inst_has:
        inst.add_component(T(inst, m))
    inst_comps = list(inst.components.items())
    before = _view(classes)
    has = T in own[ci]
    raised = None
    # the component's `agent` back-reference is a free constructor argument: the class it is attached to (oi == 0, what the
    # documentation does), any other class of the hierarchy (a factory building every component "for" the base class), an
    # instance, or None - whatever it names, attaching concerns the target class only
    if oi == 0:
        owner = cls
    elif oi == 7:
        owner = None
    elif oi == 8:
        owner = inst
    else:
        owner = hx.pick(classes, oi - 1)
    new = T(owner, m)
    try:
        if op == 'attach':
            cls.add_class_component(new)
        else:
            cls.remove_class_component(T)
    except ValueError:
        raised = 'ValueError'
    except ComponentNotFoundError:
        raised = 'ComponentNotFoundError'
    after = _view(classes)
    # instances' own components are never touched
    if list(inst.components.items()) != inst_comps or len(env_inst.components) != 0:
        return hx.end(hx.fail("class-level operation changed an instance's own components"))
    if (T in inst) != inst_has:
        return hx.end(hx.fail("class component visible through an instance's own components"))
    own = inst_comps[0][1] if inst_has else None
    if inst[T] is not own or inst.get_component(T) is not own:
        return hx.end(hx.fail("an instance's component lookup does not return its own component (or None)",
                              got=repr(inst[T])))
    if op == 'attach' and has:
        hx.reach('duplicate_rejected')
        if raised != 'ValueError' or not _same_view(before, after):
            return hx.end(hx.fail("duplicate class component: wrong error or state changed", raised=raised))
        return hx.end(True)
    if op == 'detach' and not has:
        hx.reach('absent_rejected')
        if raised != 'ComponentNotFoundError' or not _same_view(before, after):
            return hx.end(hx.fail("detaching an absent class component: wrong error or state changed", raised=raised))
        return hx.end(True)
    hx.reach('applied')
    if raised is not None:
        return hx.end(hx.fail("valid class-component operation rejected", raised=raised))
    # visible through that class only
    if not _same_view(before, after, except_idx=ci):
        return hx.end(hx.fail("operation on one class visible through another class", cls=cls.__name__,
                              changed=[c.__name__ for c, x, y in zip(classes, before, after) if not _same_view([x], [y])]))
    if op == 'attach':
        ok = (T in cls) and cls[T] is new and cls.get_class_component(T, True) is new
        if not ok:
            return hx.end(hx.fail("attached class component not readable through its class"))
        n_exp = (1 if K1 in cls else 0) + (1 if K2 in cls else 0)
        if _len(cls) != n_exp:
            return hx.end(hx.fail("len(cls)"))
    else:
        if (T in cls) or cls[T] is not None:
            return hx.end(hx.fail("detached class component still readable"))
        try:
            cls.get_class_component(T, True)
            return hx.end(hx.fail("strict lookup after detach did not raise"))
        except ComponentNotFoundError:
            pass
    return hx.end(True)


def class_component_history(c0: int, t0: int, c1: int, t1: int, c2: int, t2: int) -> bool:
    """
    pre: 0 <= c0 < 6 and 0 <= c1 < 6 and 0 <= c2 < 6
    pre: 0 <= t0 < (3 if hx.P.get('derived') else 2) and 0 <= t1 < (3 if hx.P.get('derived') else 2) and 0 <= t2 < 2
    post: _
    """
    # from freshly created classes, through the public API only (the class-level stores are whatever the metaclass set up)
    hx.begin()
    ops = hx.P['ops']
    classes = _hierarchy()
    if hx.P.get('twins'):
        # two distinct live classes produced by the same class statement (a class factory called twice): same module, same
        # qualified name - still two classes
        if hx.P['twins'] == 'shared_namespace':
            # ... or built dynamically with type(name, bases, namespace) from one shared attribute dict
            classes[1], classes[2] = _DYNAMIC_TWINS
        else:
            classes[1], classes[2] = _factory_made(), _factory_made()
    Agent._components.clear()
    for c_ in classes:
        # every path starts from empty stores whatever earlier paths of this process left behind (the analysis re-runs
        # the class statements of this module once per path; a replay runs them once)
        c_._components.clear()
    m = Model(logger=NULL_LOGGER)
    m2 = Model(logger=NULL_LOGGER)
    ref = [dict() for _ in classes]
    cs, ts = [c0, c1, c2], [t0, t1, t2]
    for k, op in enumerate(ops):
        ci = cs[k]
        cls = hx.pick(classes, ci)
        T = hx.pick(KT3 if hx.P.get('derived') else KT, ts[k])
        mine = hx.pick(ref, ci)
        if op == 'a':
            comp = T(cls, m if k % 2 == 0 else m2)      # (components built for different models: a duplicate is a duplicate)
            if T in mine:
                hx.reach('duplicate_rejected')
                try:
                    cls.add_class_component(comp)
                    return hx.end(hx.fail("duplicate class component accepted", step=k))
                except ValueError:
                    pass
            else:
                hx.reach('attached')
                cls.add_class_component(comp)
                mine[T] = comp
        else:
            if T in mine:
                hx.reach('detached')
                cls.remove_class_component(T)
                del mine[T]
            else:
                hx.reach('absent_rejected')
                try:
                    cls.remove_class_component(T)
                    return hx.end(hx.fail("absent class component detached", step=k, cls=cls.__name__))
                except ComponentNotFoundError:
                    pass
        for i, c in enumerate(classes):
            # templates of several types: true iff the class itself holds EVERY listed type, in any order
            both = (K1 in ref[i]) and (K2 in ref[i])
            if c.has_class_component(K1, K2) != both or c.has_class_component(K2, K1) != both or \
                    c.has_class_component(K1) != (K1 in ref[i]) or c.has_class_component(K2) != (K2 in ref[i]):
                return hx.end(hx.fail("has_class_component with a template", through=c.__name__, step=k,
                                      holds=[U.__name__ for U in ref[i]]))
            for U in (KT3 if hx.P.get('derived') else KT):
                if (U in c) != (U in ref[i]) or c[U] is not ref[i].get(U):
                    return hx.end(hx.fail("class component visibility differs from the per-class reference model", step=k,
                                          through=c.__name__, type=U.__name__, after="%s %s on %s" % (op, T.__name__, cls.__name__)))
            if _len(c) != len(ref[i]):
                return hx.end(hx.fail("len(cls)", through=c.__name__))
    return hx.end(True)


def default_tag(tA: int, tC: int, tS: int, tE: int, which: int, explicit: bool, etag: int, order: bool) -> bool:
    """
    pre: 0 <= which < 6
    post: _
    """
    hx.begin()
    classes = _hierarchy()
    Agent_, A, C, S, G, E = classes
    m = Model(logger=NULL_LOGGER)
    if order:
        A.tag = tA
        C.tag = tC
    else:
        C.tag = tC
        A.tag = tA
    S.tag = tS
    E.tag = tE
    expect_cls = [0, tA, tC, tS, 0, tE]           # Agent and G were never changed: default NONE (0)
    for i, cls in enumerate(classes):
        if cls.tag != expect_cls[i]:
            return hx.end(hx.fail("default tag of a class changed by setting another class's tag", cls=cls.__name__,
                                  got=cls.tag, exp=expect_cls[i]))
    cls = hx.pick(classes, which)
    if which == 5:
        inst = cls(m)                               # environments take (model, id)
        if explicit:
            return hx.end(True)                     # Environment.__init__ offers no tag argument
    elif explicit:
        inst = cls("i", m, etag)
    else:
        inst = cls("i", m)
    want = etag if explicit else hx.pick(expect_cls, which)
    if explicit:
        hx.reach('explicit')
    else:
        hx.reach('class_default')
    if inst.tag != want:
        return hx.end(hx.fail("instance tag", cls=cls.__name__, got=inst.tag, want=want, explicit=explicit))
    if which != 5:
        # an explicit tag wins whatever integer type it has (tags are often read out of numpy arrays) - and also when it is 0
        for given in (_NP_TAG, 0, True):
            got = cls("n", m, given).tag
            if got != given:
                return hx.end(hx.fail("explicit tag did not win", cls=cls.__name__, given=repr(given), got=got,
                                      class_default=hx.pick(expect_cls, which)))
    # creating an instance changes no class default
    for i, c2 in enumerate(classes):
        if c2.tag != expect_cls[i]:
            return hx.end(hx.fail("instance creation changed a class default", cls=c2.__name__))
    # a class defined AFTER its ancestors' defaults were changed starts with the default NONE (0), not the ancestor's tag
    class Late(A):
        pass

    class LateEnv(E):
        pass
    if Late.tag != 0 or LateEnv.tag != 0 or Late("l", m).tag != 0:
        return hx.end(hx.fail("a class defined later inherited an ancestor's default tag", late=Late.tag, late_env=LateEnv.tag,
                              ancestors=(tA, tE)))
    # changing the default later does not retag existing instances, and is picked up by new ones
    cls.tag = tS + 1
    if inst.tag != want:
        return hx.end(hx.fail("existing instance retagged by a later default change"))
    if which != 5:
        if cls("j", m).tag != tS + 1:
            return hx.end(hx.fail("new instance does not receive the current default of its class"))
    return hx.end(True)


def world_default_tag(tL: int, tG: int, tD: int, tS: int, which: int) -> bool:
    """
    pre: 0 <= which < 4
    post: _
    """
    # environments are agents too: a world created without an explicit tag carries the current default of ITS class
    from vf.stubs import patched_pandas
    import ECAgent.Environments as Env
    hx.begin()

    class River(Env.LineWorld):
        pass

    class Field(Env.GridWorld):
        pass

    class Box(Env.DiscreteWorld):
        pass

    class Sea(Env.SpaceWorld):
        pass
    River.tag, Field.tag, Box.tag, Sea.tag = tL, tG, tD, tS
    m = Model(logger=NULL_LOGGER)
    with patched_pandas():
        if which == 0:
            inst, want = River(m, 3), tL
        elif which == 1:
            inst, want = Field(m, 2, 2), tG
        elif which == 2:
            inst, want = Box(m, 2, 1, 2), tD
        else:
            inst, want = Sea(m, 4, 4, 4), tS
    hx.reach('built')
    if inst.tag != want:
        return hx.end(hx.fail("world created without a tag does not carry its class's default tag", cls=type(inst).__name__,
                              got=inst.tag, want=want))
    for base in (Env.LineWorld, Env.GridWorld, Env.DiscreteWorld, Env.SpaceWorld, Environment, Agent):
        if base.tag != 0:
            return hx.end(hx.fail("a library class's default tag changed", cls=base.__name__, got=base.tag))
    return hx.end(True)


BOUNDS = {"classes": "Agent, A(Agent), C(A), S(Agent), G(C), E(Environment); pairs of same-named classes from a factory / from one shared namespace dict; user subclasses of the four world classes", "class component types": 2,
          "operations": "one step from an arbitrary per-class component state / one instantiation after 4 tag assignments",
          "tags": "all ints"}
OUTSIDE = ["hierarchies deeper than 3 levels or with multiple inheritance", "class components attached through private attributes"]
STUBS = ["Model.logger replaced by a no-op logger"]
ASSUMPTIONS = ["per-class component stores may hold any subset of the two types (written directly): every such state is reachable by add_class_component"]


def obligations(tier):
    enc = (_MetaAgent.__init__, _MetaAgent.add_class_component, _MetaAgent.remove_class_component,
           _MetaAgent.get_class_component, _MetaAgent.has_class_component, _MetaAgent.__len__, Agent.__init__)
    return [
        X("class_component_step", class_component_step, parts=[{"op": o, "ci": c} for o in ("attach", "detach") for c in range(6)] +
          [{"op": "attach", "ci": c, "owners": 9, "ti": t, "ih": h} for c in ((2,) if tier == "quick" else (0, 2, 4)) for t in (0, 1) for h in (False, True)],
          labels=("applied", "duplicate_rejected", "absent_rejected"),
          labels_for=lambda p: ("applied", "duplicate_rejected") if p["op"] == "attach" else ("applied", "absent_rejected"),
          timeout=900, encoded=enc),
        X("class_component_history", class_component_history,
          parts=[{"ops": o} for o in (("aa", "ad", "a") if tier == "quick" else ("aa", "ad", "aaa", "aad", "ada", "add"))] +
          [{"ops": o, "twins": tw} for o in ("aa", "ad") for tw in ("factory", "shared_namespace")] + [{"ops": "aa", "derived": True}],
          labels=("attached", "duplicate_rejected", "detached", "absent_rejected"),
          labels_for=lambda p: {"a": ("attached",), "aa": ("attached", "duplicate_rejected"), "ad": ("detached", "absent_rejected")}.get(p["ops"], ("attached",)),
          timeout=900, encoded=enc, bounds={"history": "<= %d attach/detach from fresh classes" % (2 if tier == "quick" else 3)}),
        X("default_tag", default_tag, labels=("explicit", "class_default"), timeout=300, encoded=enc),
        X("world_default_tag", world_default_tag, labels=("built",), timeout=300, encoded=(Agent.__init__, Environment.__init__),
          bounds={"classes": "user subclasses of LineWorld, GridWorld, DiscreteWorld, SpaceWorld", "tags": "all ints"}),
    ]
