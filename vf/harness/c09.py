"""C09 - cell coordinates and cell ids are in one-to-one correspondence (engine K; X fallback at small extents)."""
import itertools
import vf.hx as hx
from vf.spec import X, K
from vf.stubs import NULL_LOGGER, patched_pandas
from ECAgent.Core import Model
import ECAgent.Environments as Env


def k_id_formula(ctx):
    from vf import kq_grid
    return kq_grid.id_formula(ctx)


def k_table_inverse(ctx):
    from vf import kq_grid
    return kq_grid.table_inverse(ctx)


def k_get_cell(ctx):
    from vf import kq_grid
    return kq_grid.get_cell(ctx)


# ---- X fallback: the real functions on symbolic coordinates, concrete shape per partition, real tables precomputed
_TABLES = {}


def _table(shape):
    if shape not in _TABLES:
        env = Env.DiscreteWorld(Model(), *shape)
        _TABLES[shape] = [tuple(int(c) for c in p) for p in env.cells['pos']]
    return _TABLES[shape]


for _s in itertools.product(range(4), repeat=3):
    _table(_s)


class _ListCells:
    """list-backed stand-in for the pandas cell table (positional row access only)"""

    def __init__(self, table):
        self.table = table
        self.iloc = self

    def __getitem__(self, i):
        if isinstance(i, str):
            raise hx.StubLimit("cells[%r]" % i)
        return ("row", i)

    def __getattr__(self, n):
        raise hx.StubLimit("cells.%s not modelled" % n)


def x_cell_lookup(x: int, y: int, z: int) -> bool:
    """
    post: _
    """
    hx.begin()
    w, h, d = hx.P['shape']
    table = _table((w, h, d))
    cls = hx.P.get('cls', 'discrete')
    with patched_pandas():
        # real constructors (pandas contract stand-in); the world kinds differ in what get_dimensions() etc. return
        if cls == 'line':
            env = Env.LineWorld(Model(logger=NULL_LOGGER), w)
        elif cls == 'grid':
            env = Env.GridWorld(Model(logger=NULL_LOGGER), w, h)
        elif hx.P.get('wrap'):
            env = Env.DiscreteWorld(Model(logger=NULL_LOGGER), w, h, d, wrap_env=True)   # toroidal for MOVES; lookups are bounded all the same
        else:
            env = Env.DiscreteWorld(Model(logger=NULL_LOGGER), w, h, d)
        # a second world of ANOTHER shape, created later in the same process under the same (default) id
        Env.DiscreteWorld(Model(logger=NULL_LOGGER), w + 2, h + 1, d + 1)
    env.cells = _ListCells(table)
    inside = 0 <= x < max(w, 1) and 0 <= y < max(h, 1) and 0 <= z < max(d, 1)
    try:
        if hx.P.get('alias'):
            import warnings
            warnings.simplefilter("ignore")
            row = env.getCell(x, y, z)          # deprecated alias of get_cell
        else:
            row = env.get_cell(x, y, z)
        raised = False
    except IndexError:
        raised = True
    if not inside:
        hx.reach('outside')
        return hx.end(raised or hx.fail("coordinates outside the grid not rejected", coords=(x, y, z), shape=(w, h, d)))
    hx.reach('inside')
    if raised:
        return hx.end(hx.fail("in-grid coordinates rejected with IndexError", coords=(x, y, z), shape=(w, h, d)))
    i = row[1]
    if not (0 <= i < len(table)):
        return hx.end(hx.fail("row index outside the table", index=i))
    back = hx.pick(table, i)
    if back[0] != x or back[1] != y or back[2] != z:
        return hx.end(hx.fail("lookup returned another cell's row", coords=(x, y, z), row_of=back, shape=(w, h, d)))
    # the id function itself, called the way the world calls it
    if Env.discrete_grid_pos_to_id(x, y, w, z, h) != i:
        return hx.end(hx.fail("id differs from the row index"))
    if not hx.P.get('numpy_coords'):
        return hx.end(True)
    # coordinates often come out of numpy (argwhere, unravel_index, rng.integers): numpy integers are coordinates too
    import numpy as np
    zero, far = np.int64(0), np.int64(max(w, h, d) + 3)
    try:
        r0 = env.get_cell(zero, zero, zero)
    except Exception as e:
        return hx.end(hx.fail("in-grid numpy-integer coordinates rejected", error=repr(e)))
    if r0[1] != 0:
        return hx.end(hx.fail("numpy-integer coordinates (0,0,0) gave another cell's row", row=r0[1]))
    try:
        env.get_cell(far, zero, zero)
        return hx.end(hx.fail("out-of-grid numpy-integer coordinate accepted"))
    except IndexError:
        pass
    return hx.end(True)


def rows_follow_components(x: int, y: int, v0: int, v1: int) -> bool:
    """
    post: _
    """
    # looking a cell up returns that very cell's row with ALL its current cell-component values: after components were
    # added and removed, and independently of another world of the same shape (pandas contract stand-in)
    hx.begin()
    w, h, d = hx.P['shape']
    if not (0 <= x < max(w, 1) and 0 <= y < max(h, 1)):
        return hx.end(True)
    cx = 0 if x == 0 else 1 if x == 1 else 2
    cy = 0 if y == 0 else 1 if y == 1 else 2
    with patched_pandas():
        m = Model(logger=NULL_LOGGER)
        a = Env.DiscreteWorld(m, w, h, d)
        b = Env.DiscreteWorld(m, w, h, d)              # a second world of the same shape
        n = len(a.cells)
        i = cy * max(w, 1) + cx
        a.add_cell_component("rain", [v0 + k for k in range(n)])
        b.add_cell_component("slope", [v1 + k for k in range(n)])
        r1 = a.get_cell(cx, cy, 0)
        if sorted(r1.keys()) != ["pos", "rain"] or r1["rain"] != v0 + i or tuple(r1["pos"]) != (cx, cy, 0):
            return hx.end(hx.fail("row of a cell", got=dict(r1), cell=(cx, cy, 0)))
        a.add_cell_component("soil", [7] * n)
        a.remove_cell_component("rain")
        r2 = a.get_cell(cx, cy, 0)
        hx.reach('looked_up_twice')
        if sorted(r2.keys()) != ["pos", "soil"] or r2["soil"] != 7:
            return hx.end(hx.fail("row of a cell after components were added/removed (stale row?)", got=dict(r2)))
        rb = b.get_cell(cx, cy, 0)
        if sorted(rb.keys()) != ["pos", "slope"] or rb["slope"] != v1 + i:
            return hx.end(hx.fail("row of the same cell in another world of the same shape", got=dict(rb)))
        # a component generated again under the same name (the usual way to refresh it) REPLACES the old values
        a.add_cell_component("soil", [v1 - k for k in range(n)])
        r3 = a.get_cell(cx, cy, 0)
        if sorted(r3.keys()) != ["pos", "soil"] or r3["soil"] != v1 - i:
            return hx.end(hx.fail("row of a cell after a component was generated again under the same name",
                                  labels=list(r3.keys()), expected_soil=v1 - i))
        # the world's own coordinate column is not a component: raw data offered under its name is refused, the table stays
        try:
            a.add_cell_component("pos", [k for k in range(n)])
            return hx.end(hx.fail("raw data was accepted as a cell component called 'pos'", pos_now=list(a.cells['pos'])[:3]))
        except ValueError:
            pass
        if tuple(a.get_cell(cx, cy, 0)["pos"]) != (cx, cy, 0):
            return hx.end(hx.fail("the position table changed"))
        # ... and a re-generation that is REJECTED (wrong length) leaves the row as it was
        try:
            a.add_cell_component("soil", [0] * (n + 1))
            return hx.end(True)
        except ValueError:
            pass
        r4 = a.get_cell(cx, cy, 0)
        if sorted(r4.keys()) != ["pos", "soil"] or r4["soil"] != v1 - i:
            return hx.end(hx.fail("row of a cell after a rejected re-generation of a component", labels=list(r4.keys())))
    return hx.end(True)


def id_alias(x: int, y: int, w: int, z: int, h: int) -> bool:
    """
    pre: w >= 0 and h >= 0 and x >= 0 and y >= 0 and z >= 0
    post: _
    """
    # the deprecated public alias of the id function denotes the same function
    import warnings
    hx.begin()
    hx.reach('called')
    with warnings.catch_warnings():
        warnings.simplefilter("ignore")
        got = Env.discreteGridPosToID(x, y, w, z, h)
    return hx.end(got == Env.discrete_grid_pos_to_id(x, y, w, z, h) or hx.fail("alias differs", args=(x, y, w, z, h)))


BOUNDS = {"id formula (K)": "all shapes w,h,d >= 0 (non-linear, no bound), all in-grid coordinates",
          "table inverse (K)": "every concrete shape with extents 0..N (N = 4 quick / 8 thorough) through the real constructor and pandas table",
          "get_cell (K)": "all shapes, all integer coordinates, list-backed cells", "X fallback": "extents 0..2/3"}
OUTSIDE = ["that pandas' iloc[i] returns the i-th row (trusted; positional access is stubbed by a list-backed stand-in)",
           "non-integer coordinates"]
STUBS = ["functools.lru_cache-wrapped helpers of ECAgent.Environments replaced by a Python-level memo inside patched_pandas() (C-level memoisation is invisible to CrossHair)", "X worlds are built by the real constructors with ECAgent.Environments.pandas replaced by the contract stand-in vf.stubs.Frame",
         "self.cells replaced by a list-backed stand-in: iloc[i] -> row i, ['pos'][i] -> i-th position of the table"]
ASSUMPTIONS = ["the world's table enumerates z-major, then y, then x over max(extent,1) cells per axis - checked against the real "
               "constructor for every concrete shape (table_inverse)"]


def obligations(tier):
    N = 4 if tier == "quick" else 8
    M = 2 if tier == "quick" else 3
    enc = (Env.discrete_grid_pos_to_id, Env.DiscreteWorld.get_cell, Env.DiscreteWorld.__init__)
    shapes = [list(s) for s in itertools.product(range(M + 1), repeat=3)]
    return [
        K("id_formula", k_id_formula, timeout=120, encoded=enc[:1], bounds={"shape": "all w,h,d >= 0"}),
        K("table_inverse", k_table_inverse, parts=[{"N": N}], timeout=120, encoded=enc, bounds={"extents": "0..%d" % N}),
        K("get_cell", k_get_cell, timeout=120, encoded=enc[:2], bounds={"shape, coordinates": "all ints"}),
        X("rows_follow_components", rows_follow_components, parts=[{"shape": sh} for sh in ([3, 2, 0], [2, 0, 0], [2, 2, 1])],
          labels=("looked_up_twice",), timeout=600, encoded=enc[1:] + (Env.DiscreteWorld.add_cell_component, Env.DiscreteWorld.remove_cell_component)),
        X("id_alias", id_alias, labels=("called",), timeout=300, encoded=(Env.discreteGridPosToID,)),
        X("x_cell_lookup", x_cell_lookup, parts=[{"shape": s} for s in shapes] + [{"shape": [2, 2, 0], "alias": True}] +
          [{"shape": [2, 2, 0], "wrap": True}, {"shape": [3, 1, 2], "wrap": True}, {"shape": [2, 3, 2], "numpy_coords": True}, {"shape": [3, 0, 0], "cls": "line", "numpy_coords": True}, {"shape": [3, 0, 0], "cls": "line"}, {"shape": [1, 0, 0], "cls": "line"}, {"shape": [2, 3, 0], "cls": "grid"}, {"shape": [3, 1, 0], "cls": "grid"}],
          labels=("inside", "outside"), timeout=300,
          group=4, encoded=enc[:2], bounds={"extents": "0..%d" % M, "coordinates": "all ints"}),
    ]
