"""C19 - tag libraries keep a stable name<->id bijection and cannot be corrupted (engine X).

Names are drawn by symbolic index from a pool computed from the code at run time: every attribute name of a
TagLibrary instance (methods, dunders, data descriptors), the instance-dict keys, every global of the Tags module,
plus ordinary identifiers, the empty string and non-identifier strings.  The library's behaviour depends on a name
only through membership in those sets, which the pool covers by construction.
"""
import vf.hx as hx
from vf.spec import X
import ECAgent.Tags as Tags
TagLibrary, DuplicateTagError, TagNotFoundError = Tags.TagLibrary, Tags.DuplicateTagError, Tags.TagNotFoundError   # (from-import trips the module __getattr__)


def _pool():
    lib = TagLibrary()
    names = []
    for n in list(lib.__dict__) + dir(lib) + list(vars(Tags)) + dir(type(Tags)) + dir(type):
        if isinstance(n, str) and n not in names:
            names.append(n)
    # names that are DIFFERENT strings but share their Unicode compatibility (NFKC) normal form - the form Python gives
    # identifiers in source code - with a name above: full-width spellings of the library's public and instance names
    def full_width(s_):
        return "".join(chr(ord(c) + 0xFEE0) if 33 <= ord(c) <= 126 else c for c in s_)
    for n in [n for n in names if n in lib.__dict__ or (n in dir(TagLibrary) and n not in dir(object))] + ["__class__", "__dict__", "fish"]:
        if full_width(n) not in names:
            names.append(full_width(n))
    for n in ["\ufb01sh", "fish", "SHEEP", "WOLF", "sheep", "x", "", " ", "not an identifier", "a.b", "0", "None", "Tag1", "__foo__", "_private",
              "self", "tag_id", "tag_name", "{x}", "cell{0}", "set{", "}", "{}", "%s", "100%"]:
        if n not in names:
            names.append(n)
    return names


POOL = _pool()
ORDINARY = [i for i, n in enumerate(POOL) if n in ("\ufb01sh", "SHEEP", "WOLF", "sheep", "x", "Tag1")]   # (the first is spelt with the ligature U+FB01)


import numpy as _np
_NP_IDS = [_np.int64(i) for i in range(16)]


def _len(lib):
    # _len(lib) dispatches on the type; CrossHair's patched len() looks __len__ up on the instance, which differs once a
    # tag called "__len__" sits in the instance dict - call what real Python calls
    return type(lib).__len__(lib)


def _name(i):
    return hx.pick(POOL, i)


def _ops_work(lib, names_expected):
    """all four public operations still work and agree with the reference list [(name, id)]"""
    n = len(names_expected)
    if _len(lib) != n:
        return hx.fail("len(library)", got=_len(lib), exp=n)
    items = lib.itemize()
    if items != [(nm, i) for i, nm in enumerate(names_expected)]:
        return hx.fail("itemize()", got=items, exp=[(nm, i) for i, nm in enumerate(names_expected)])
    # the returned list is the caller's: re-ordering it does not re-order the library
    items.reverse()
    if len(items) > 1 and lib.itemize() != [(nm, i) for i, nm in enumerate(names_expected)]:
        return hx.fail("itemize() after the caller re-ordered an earlier result", got=lib.itemize())
    for i, nm in enumerate(names_expected):
        if lib.get_tag_name(i) != nm:
            return hx.fail("get_tag_name(id)", id=i, got=lib.get_tag_name(i), exp=nm)
        if lib.get_tag_name(_NP_IDS[i]) != nm:         # ids often come out of numpy arrays of agent tags
            return hx.fail("get_tag_name(id) with a numpy integer id", id=i, exp=nm)
        v = getattr(lib, nm)
        if type(v) is not int or v != i:
            return hx.fail("lookup by name does not give the id", name=nm, got=v, exp=i)
    return True


def _build(idx, t):
    """library with t earlier ORDINARY tags (always accepted)"""
    lib = TagLibrary()
    names = ['NONE']
    for k in range(t):
        nm = POOL[ORDINARY[k]]
        lib.add_tag(nm)
        names.append(nm)
    return lib, names


def add_step(i: int) -> bool:
    """
    pre: 0 <= i < len(POOL)
    post: _
    """
    hx.begin()
    t = hx.P['t']
    lib, names = _build(None, t)
    nm = _name(i)
    snap_dict = dict(lib.__dict__)
    snap_names = list(lib._tag_names)
    try:
        lib.add_tag(nm)
        accepted = True
    except DuplicateTagError:
        accepted = False
    if accepted:
        hx.reach('accepted')
        names = names + [nm]
        if nm in snap_names:
            return hx.end(hx.fail("duplicate name accepted", name=nm))
    else:
        hx.reach('rejected')
        # a rejected name changes nothing
        if lib.__dict__ != snap_dict or lib._tag_names != snap_names:
            return hx.end(hx.fail("rejected name changed the library", name=nm))
    # no tag name whatsoever can break the library's own operations; name<->id stay mutual inverses
    try:
        ok = _ops_work(lib, names)
    except Exception as e:
        return hx.end(hx.fail("library operation broken after add_tag(%r)" % nm, error=repr(e)))
    if ok is not True:
        return hx.end(False)
    # the next ordinary tag still gets the next unused id
    nxt = "ZZ_NEXT"
    lib.add_tag(nxt)
    try:
        ok = _ops_work(lib, names + [nxt])
    except Exception as e:
        return hx.end(hx.fail("library operation broken after a further add", error=repr(e)))
    return hx.end(ok is True)


def lookup(q: int) -> bool:
    """
    pre: q < 0 or q > hx.P['t']
    post: _
    """
    # ids outside the assigned range 0..t (in-range ids are enumerated one by one in add_step's agreement check:
    # a symbolic in-range index into the real name list makes CrossHair hand back a lazy str proxy - measured not to exhaust)
    hx.begin()
    t = hx.P['t']
    lib, names = _build(None, t)
    hx.reach('out_of_range')
    try:
        lib.get_tag_name(q)
        return hx.end(hx.fail("unknown id did not raise TagNotFoundError", id=q, tags=len(names)))
    except TagNotFoundError:
        pass
    return hx.end(True)


def _reset_module():
    Tags._module_library = TagLibrary()


def module_level(i: int, q: int) -> bool:
    """
    pre: 0 <= i < len(POOL)
    post: _
    """
    hx.begin()
    t = hx.P['t']
    _reset_module()
    try:
        names = ['NONE']
        for k in range(t):
            nm0 = POOL[ORDINARY[k]]
            Tags.add_tag(nm0)
            names.append(nm0)
        nm = _name(i)
        other = TagLibrary()
        other.add_tag("LOCAL")
        try:
            Tags.add_tag(nm)
            names = names + [nm]
            hx.reach('accepted')
        except DuplicateTagError:
            hx.reach('rejected')
        # the module-level functions still work and agree
        try:
            items = Tags.itemize()
            if items != [(x, k) for k, x in enumerate(names)]:
                return hx.end(hx.fail("Tags.itemize()", got=items))
            for k, x in enumerate(names):
                if Tags.get_tag_name(k) != x:
                    return hx.end(hx.fail("Tags.get_tag_name", id=k))
                v = getattr(Tags, x)
                if type(v) is not int or v != k:
                    return hx.end(hx.fail("Tags.<name> does not give the id", name=x, got=repr(v), exp=k))
            if Tags.NONE != 0:
                return hx.end(hx.fail("Tags.NONE != 0"))
        except Exception as e:
            return hx.end(hx.fail("module-level operation broken after Tags.add_tag(%r)" % nm, error=repr(e)))
        # unknown id / unknown name raise the documented error
        if not (0 <= q < len(names)):
            try:
                Tags.get_tag_name(q)
                return hx.end(hx.fail("unknown id at module level"))
            except TagNotFoundError:
                pass
        try:
            getattr(Tags, "NoSuchTagName")
            return hx.end(hx.fail("unknown name at module level did not raise"))
        except TagNotFoundError:
            pass
        # separate libraries do not influence each other
        if other.itemize() != [('NONE', 0), ('LOCAL', 1)] or _len(other) != 2:
            return hx.end(hx.fail("a module-level add changed a separate library"))
        if "LOCAL" in [x for x, _ in Tags.itemize()]:
            return hx.end(hx.fail("a local add leaked into the global library"))
        return hx.end(True)
    finally:
        _reset_module()


def module_unknown_name(u: int) -> bool:
    """
    pre: 0 <= u < len(POOL)
    post: _
    """
    # lookup by name on the global library: a name that is not a tag raises the documented error - unless Python itself
    # resolves it as an attribute of the module object (the module's functions, classes, imports, dunders), which never
    # reaches the library.  In particular the library's INTERNAL state is not a tag.
    hx.begin()
    t = hx.P['t']
    _reset_module()
    try:
        names = ['NONE']
        for k in range(t):
            nm0 = POOL[ORDINARY[k]]
            Tags.add_tag(nm0)
            names.append(nm0)
        nm = _name(u)
        if nm in names:
            hx.reach('is_a_tag')
            v = getattr(Tags, nm)
            return hx.end((type(v) is int and v == names.index(nm)) or hx.fail("Tags.<tag> is not its id", name=nm, got=repr(v)))
        # (whether Python resolves the name itself is observed, not predicted: the module's lookup hook is wrapped)
        real_hook = vars(Tags)['__getattr__']
        consulted = []

        def hook(name_):
            consulted.append(name_)
            return real_hook(name_)
        Tags.__getattr__ = hook
        try:
            try:
                v = getattr(Tags, nm)
            except TagNotFoundError:
                hx.reach('not_a_tag')
                return hx.end(True)
        finally:
            Tags.__getattr__ = real_hook
        if not consulted:
            hx.reach('module_attribute')
            return hx.end(True)
        return hx.end(hx.fail("module-level lookup of a name that is not a tag returned a value instead of raising TagNotFoundError",
                              name=nm, got=repr(v)))
    finally:
        _reset_module()


def isolation(i: int) -> bool:
    """
    pre: 0 <= i < len(POOL)
    post: _
    """
    # the same name added to two separate libraries: neither influences the other, nor the global library
    hx.begin()
    _reset_module()
    a, b = TagLibrary(), TagLibrary()
    nm = _name(i)
    ra = rb = True
    try:
        a.add_tag(nm)
    except DuplicateTagError:
        ra = False
    snap_g = (dict(Tags._module_library.__dict__), list(Tags._module_library._tag_names))
    if b.itemize() != [('NONE', 0)] or _len(b) != 1:
        return hx.end(hx.fail("an add on one library changed another", name=nm))
    try:
        b.add_tag(nm)
    except DuplicateTagError:
        rb = False
    hx.reach('both')
    if ra != rb:
        return hx.end(hx.fail("acceptance in one library depends on another library", name=nm))
    if (dict(Tags._module_library.__dict__), list(Tags._module_library._tag_names)) != snap_g:
        return hx.end(hx.fail("a local add changed the global library"))
    exp = [('NONE', 0), (nm, 1)] if ra else [('NONE', 0)]
    try:
        if a.itemize() != exp or b.itemize() != exp or _len(a) != len(exp) or _len(b) != len(exp):
            return hx.end(hx.fail("libraries after independent adds", a=a.itemize(), b=b.itemize()))
    except Exception as e:
        return hx.end(hx.fail("library operation broken", error=repr(e)))
    # ... and the other way round: what the GLOBAL library holds does not decide what a fresh local one accepts
    try:
        try:
            Tags.add_tag(nm)
        except DuplicateTagError:
            pass
        c = TagLibrary()
        rc = True
        try:
            c.add_tag(nm)
        except DuplicateTagError:
            rc = False
        if rc != ra:
            return hx.end(hx.fail("acceptance in a local library depends on the global library's tags", name=nm, fresh_local=ra,
                                  after_global_add=rc))
        if c.itemize() != exp:
            return hx.end(hx.fail("local library after a global add of the same name", got=c.itemize(), exp=exp))
    finally:
        _reset_module()
    return hx.end(True)


BOUNDS = {"tags per library": "<= 4", "name pool": "%d names computed from the code at run time" % len(POOL), "lookup id": "all ints"}
OUTSIDE = ["names outside the pool that are neither attributes of the library nor module globals behave like the ordinary identifiers in the pool "
           "(the library inspects a name only through dict membership) - not proved for all strings", "non-str tag names"]
STUBS = []
ASSUMPTIONS = ["the module-level library is reset to a fresh TagLibrary at the start and end of every path"]


def obligations(tier):
    enc = (TagLibrary.add_tag, TagLibrary.get_tag_name, TagLibrary.itemize, TagLibrary.__len__)
    ts = (0, 2) if tier == "quick" else (0, 1, 2, 3)
    return [
        X("add_step", add_step, parts=[{"t": t} for t in ts], labels=("accepted", "rejected"), timeout=900, encoded=enc,
          bounds={"earlier tags": ",".join(map(str, ts)), "name": "any of the pool"}),
        X("lookup", lookup, parts=[{"t": t} for t in (0, 3)], labels=("out_of_range",), timeout=300, encoded=enc,
          bounds={"id": "every int outside 0..t"}),
        X("module_level", module_level, parts=[{"t": t} for t in ((1,) if tier == "quick" else (0, 1, 2))],
          labels=("accepted", "rejected"), timeout=900,
          encoded=(Tags.add_tag, Tags.get_tag_name, Tags.itemize, Tags.__getattr__)),
        X("module_unknown_name", module_unknown_name, parts=[{"t": 2}], labels=("is_a_tag", "module_attribute", "not_a_tag"), timeout=300,
          encoded=(Tags.__getattr__,), bounds={"name": "any of the pool", "earlier tags": 2}),
        X("isolation", isolation, labels=("both",), timeout=900, encoded=enc),
    ]
