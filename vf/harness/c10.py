"""C10 - neighbourhood queries return exactly the metric ball clipped to the grid (engine K; X for dispatch/fallback)."""
import itertools
import vf.hx as hx
from vf.spec import X, K
from vf.stubs import patched_pandas, NULL_LOGGER
from ECAgent.Core import Model
import ECAgent.Environments as Env


def k_neighbours(ctx):
    from vf import kq_grid
    return kq_grid.neighbours(ctx)


def k_neighbours_id_centre(ctx):
    from vf import kq_grid
    return kq_grid.neighbours_id_centre(ctx)


def _world(shape):
    """a world built by the REAL constructor (so that whatever state __init__ sets up exists); only pandas is the
    contract stand-in of vf.stubs.  Callers keep `patched_pandas()` active for the whole path, so that module-level
    memoisation is modelled during the queries as well."""
    return Env.DiscreteWorld(Model(logger=NULL_LOGGER), *shape)



def _ball(kind, shape, c, r, incl, as_id):
    w, h, d = shape
    W, H, D = max(w, 1), max(h, 1), max(d, 1)
    out = []
    for z in range(D):
        for y in range(H):
            for x in range(W):
                dx = x - c[0] if x >= c[0] else c[0] - x
                dy = y - c[1] if y >= c[1] else c[1] - y
                dz = z - c[2] if z >= c[2] else c[2] - z
                if kind == 'moore':
                    dist = dx
                    if dy > dist:
                        dist = dy
                    if dz > dist:
                        dist = dz
                else:
                    dist = dx + dy + dz
                if dist <= r and (incl or dist != 0):
                    out.append(z * W * H + y * W + x if as_id else (x, y, z))
    return out


def x_neighbours(cx: int, cy: int, cz: int, r: int, incl: bool, as_id: bool) -> bool:
    """
    pre: hx.P.get('Rmin', 0) <= r <= hx.P['R']
    post: _
    """
    # fallback of the K obligations at small bounds: the real functions, path by path
    hx.begin()
    with patched_pandas():
        return _x_neighbours(cx, cy, cz, r, incl, as_id)


def _x_neighbours(cx, cy, cz, r, incl, as_id):
    shape, kind = tuple(hx.P['shape']), hx.P['kind']
    if 'centre' in hx.P:
        cx, cy, cz = hx.P['centre']        # plain Python numbers (library calls returning numpy scalars behave differently on proxies)
    w, h, d = shape
    if not (0 <= cx < max(w, 1) and 0 <= cy < max(h, 1) and 0 <= cz < max(d, 1)):
        return hx.end(True)
    lo, hi = hx.P.get('centre_box', (None, None))       # (large worlds: centres restricted to a concrete sub-box)
    if lo is not None and not (lo <= cx <= hi and lo <= cy <= hi and lo <= cz <= hi):
        return hx.end(True)
    env = _world(shape)
    if hx.P.get('with_component'):
        # the world carries cell components (the usual case): they are not cells
        ncell = max(w, 1) * max(h, 1) * max(d, 1)
        env.add_cell_component("rain", [k for k in range(ncell)])
        env.add_cell_component("soil", [7] * ncell)
    if 'radius' in hx.P:
        r = hx.P['radius']                  # a radius fixed by the partition: "unbounded" values such as sys.maxsize, 2**63, 2**70
    fn = env.get_moore_neighbours if kind == 'moore' else env.get_neumann_neighbours
    centre = (cx, cy, cz)
    if hx.P.get('centre_form') == 'id':         # the same centre given as its cell id (row of the world's own table)
        centre = cz * max(w, 1) * max(h, 1) + cy * max(w, 1) + cx
    got = fn(centre, r, incl, int if as_id else tuple)
    exp = _ball(kind, shape, (cx, cy, cz), r, incl, as_id)
    if len(exp) > 0:
        hx.reach('nonempty')
    if len(got) != len(exp):
        return hx.end(hx.fail("neighbour count", kind=kind, shape=shape, centre=(cx, cy, cz), r=r, incl=incl, got=got, exp=exp))
    for a, b in zip(got, exp):
        if a != b:
            return hx.end(hx.fail("neighbour list", kind=kind, shape=shape, centre=(cx, cy, cz), r=r, got=got, exp=exp))
    # the answer is the caller's own list: consuming it destructively must not change what the same question - asked
    # again, or asked of another world of the same shape - returns
    if hx.P.get('light'):
        return hx.end(True)
    del got[:]
    again = fn((cx, cy, cz), r, incl, int if as_id else tuple)
    twin = _world(shape)
    other = (twin.get_moore_neighbours if kind == 'moore' else twin.get_neumann_neighbours)((cx, cy, cz), r, incl, int if as_id else tuple)
    if list(again) != list(exp) or list(other) != list(exp):
        return hx.end(hx.fail("same query answered differently after the first answer was consumed", kind=kind, shape=shape,
                              centre=(cx, cy, cz), r=r, again=again, twin_world=other, exp=exp))
    return hx.end(True)


def x_component_centre(x1: int, y1: int, incl: bool, as_id: bool) -> bool:
    """
    pre: 0 <= x1 < 4 and 0 <= y1 < 3
    post: _
    """
    # a position component as centre, queried, then moved to another cell and queried again with the same object:
    # every answer is the ball around the cell the component denotes AT THAT MOMENT (fractional in-cell offsets)
    hx.begin()
    with patched_pandas():
        return _x_component_centre(x1, y1, incl, as_id)


def _x_component_centre(x1, y1, incl, as_id):
    kind = hx.P['kind']
    shape = (4, 3, 0)
    env = _world(shape)
    fn = env.get_moore_neighbours if kind == 'moore' else env.get_neumann_neighbours
    rt = int if as_id else tuple
    fx, fy = hx.P['frac']
    cx0, cy0 = hx.P['start']            # first cell and radius chosen by the partition, second cell by the solver
    r = hx.P['r']
    cx1 = 0 if x1 == 0 else 1 if x1 == 1 else 2 if x1 == 2 else 3
    cy1 = 0 if y1 == 0 else 1 if y1 == 1 else 2
    pc = Env.PositionComponent(None, None, cx0 + fx, cy0 + fy, 0.0)
    first = fn(pc, r, incl, rt)
    if list(first) != _ball(kind, shape, (cx0, cy0, 0), r, incl, as_id):
        return hx.end(hx.fail("neighbourhood of a position-component centre", centre=(cx0 + fx, cy0 + fy), got=first))
    pc.x, pc.y = cx1 + fx, cy1 + fy
    if (cx0, cy0) != (cx1, cy1):
        hx.reach('moved')
    second = fn(pc, r, incl, rt)
    if list(second) != _ball(kind, shape, (cx1, cy1, 0), r, incl, as_id):
        return hx.end(hx.fail("neighbourhood after the position component moved", old=(cx0, cy0), new=(cx1, cy1), got=second,
                              exp=_ball(kind, shape, (cx1, cy1, 0), r, incl, as_id)))
    # the generic entry point agrees
    if list(env.get_neighbours(pc, r, incl, rt, kind)) != list(second):
        return hx.end(hx.fail("generic entry point differs"))
    return hx.end(True)


def x_two_worlds(cx: int, cy: int, cz: int, r: int, incl: bool, as_id: bool) -> bool:
    """
    pre: 0 <= r <= hx.P['R']
    post: _
    """
    # several worlds of different shapes alive in one process: what one world was asked before must not influence what
    # another one answers (same radius, same kind, same return form)
    hx.begin()
    with patched_pandas():
        first, second, kind = tuple(hx.P['first']), tuple(hx.P['second']), hx.P['kind']
        w, h, d = second
        if not (0 <= cx < max(w, 1) and 0 <= cy < max(h, 1) and 0 <= cz < max(d, 1)):
            return hx.end(True)
        rt = int if as_id else tuple
        a = _world(first)
        fa = a.get_moore_neighbours if kind == 'moore' else a.get_neumann_neighbours
        ga = fa((0, 0, 0), r, incl, rt)
        if list(ga) != _ball(kind, first, (0, 0, 0), r, incl, as_id):
            return hx.end(hx.fail("first world's answer", shape=first, r=r, got=ga))
        b = _world(second)
        fb = b.get_moore_neighbours if kind == 'moore' else b.get_neumann_neighbours
        gb = fb((cx, cy, cz), r, incl, rt)
        exp = _ball(kind, second, (cx, cy, cz), r, incl, as_id)
        if len(exp) > 1:
            hx.reach('nonempty')
        if list(gb) != exp:
            return hx.end(hx.fail("second world's answer after another world was asked the same question", kind=kind,
                                  first_world=first, second_world=second, centre=(cx, cy, cz), r=r, got=gb, exp=exp))
        # ... and the first world still answers for its own shape
        if list(fa((0, 0, 0), r, incl, rt)) != _ball(kind, first, (0, 0, 0), r, incl, as_id):
            return hx.end(hx.fail("first world's answer after the second world was asked", shape=first, r=r))
        return hx.end(True)


_BADTYPES = [list, str, float, None, bool]


def dispatch(cx: int, cy: int, r: int, incl: bool, as_id: bool, which: int) -> bool:
    """
    pre: 0 <= cx < 3 and 0 <= cy < 2
    pre: 0 <= r <= 2
    pre: 0 <= which < 6
    post: _
    """
    hx.begin()
    with patched_pandas():
        return _dispatch(cx, cy, r, incl, as_id, which)


def _dispatch(cx, cy, r, incl, as_id, which):
    env = _world((3, 2, 0))
    rt = int if as_id else tuple
    c = (cx, cy, 0)
    if which == 0:
        hx.reach('modes')
        a = env.get_neighbours(c, r, incl, rt, 'moore')
        b = env.get_moore_neighbours(c, r, incl, rt)
        a2 = env.get_neighbours(c, r, incl, rt, mode='neumann')
        b2 = env.get_neumann_neighbours(c, r, incl, rt)
        d0 = env.get_neighbours(c, r, incl, rt)                    # default mode is moore
        return hx.end((a == b and a2 == b2 and d0 == b) or hx.fail("generic entry point differs from the specific one"))
    if which == 1:
        hx.reach('bad_mode')
        for mode in ('Moore', 'von_neumann', '', None):
            try:
                env.get_neighbours(c, r, incl, rt, mode)
                return hx.end(hx.fail("unknown mode accepted", mode=mode))
            except KeyError:
                pass
        return hx.end(True)
    hx.reach('bad_ret_type')
    bad = hx.pick(_BADTYPES, which - 2) if which - 2 < len(_BADTYPES) else list
    for f in (env.get_moore_neighbours, env.get_neumann_neighbours):
        try:
            f(c, r, incl, bad)
            return hx.end(hx.fail("bad ret_type accepted", ret_type=repr(bad)))
        except TypeError:
            pass
    try:
        env.get_moore_neighbours([cx, cy, 0], r)
        return hx.end(hx.fail("bad centre type accepted"))
    except TypeError:
        pass
    return hx.end(True)


BOUNDS = {"quick": {"radius": "<= 2 on unbounded grids, or unbounded radius on grids with extents <= 5", "id-form centres": "every concrete shape with extents <= 2 (real table), radius unbounded"},
          "thorough": {"radius": "<= 3 on unbounded grids (<= 4 for tuple form), or unbounded radius on grids with extents <= 2R+1",
                       "id-form centres": "every concrete shape with extents <= 3"}}
OUTSIDE = ["larger radii on grids wider than 2R+1", "wrapping (excluded by the property)", "ascending order at R = 4 (z3: unknown after 600 s; decided up to R = 3)", "id form (ret_type=int): width and height concrete 0..3/4 per query, depth unbounded (the id is non-linear in width*height; that ids equal table ranks for ALL shapes is C09's id_formula)"]
STUBS = ["X worlds are built by the real constructors with ECAgent.Environments.pandas replaced by the contract stand-in vf.stubs.Frame; lru_cache-wrapped helpers replaced by a Python-level memo",
         "self.cells replaced by stand-ins: symbolic shapes use the arithmetic inverse of the table rank, concrete shapes the REAL position table",
         "PositionComponent centres carry a real-valued in-cell offset 0 <= f < 1 (int() of a non-negative value is exact truncation)"]
ASSUMPTIONS = ["cell order = position in the world's own table (z-major, y, x), as established by C09"]


def obligations(tier):
    enc = (Env.DiscreteWorld.get_moore_neighbours, Env.DiscreteWorld.get_neumann_neighbours, Env.DiscreteWorld._get_cell_pos_as_tuple,
           Env.discrete_grid_pos_to_id, Env.DiscreteWorld.get_neighbours)
    R = 2 if tier == "quick" else 3
    parts = [{"kind": k, "R": R, "ret": "tuple", "centre": "tuple"} for k in ("moore", "neumann")]
    if tier == "quick":
        parts += [{"kind": k, "R": 2, "ret": "int", "centre": "tuple", "WH": 3} for k in ("moore", "neumann")]
    else:   # one partition per width so that the (width, height) pairs spread over the cores
        parts += [{"kind": k, "R": 2, "ret": "int", "centre": "tuple", "WH": 4, "W_only": cw} for k in ("moore", "neumann") for cw in range(5)]
    parts += [{"kind": k, "R": 1 if tier == "quick" else 2, "ret": "tuple", "centre": "pos"} for k in ("moore", "neumann")]
    if tier != "quick":
        parts += [{"kind": "moore", "R": 4, "ret": "tuple", "centre": "tuple", "no_order": True}]
    NI = 2 if tier == "quick" else 3
    shapes = [(3, 3, 3), (2, 0, 3), (1, 4, 0)] if tier == "quick" else [(3, 3, 3), (2, 0, 3), (1, 4, 0), (0, 0, 0), (4, 1, 2), (3, 2, 0)]
    return [
        K("neighbours", k_neighbours, parts=parts, timeout=600, encoded=enc[:4]),
        K("neighbours_id_centre", k_neighbours_id_centre,
          parts=[{"kind": k, "N": NI, "ret": rt} for k in ("moore", "neumann") for rt in ("tuple", "int")], timeout=300, encoded=enc[:4]),
        X("x_neighbours", x_neighbours, parts=[{"shape": list(s), "kind": k, "R": 1 if tier == "quick" else 2} for s in shapes for k in ("moore", "neumann")] +
          [{"shape": sh, "kind": k, "R": 1, "centre_form": "id", "light": True} for sh in ([1, 4, 0], [2, 3, 2], [3, 5, 0]) for k in ("moore", "neumann")] +
          [{"shape": [2, 3, 2], "kind": k, "R": 1, "radius": rr, "light": True} for k in ("moore", "neumann") for rr in (2 ** 63 - 1, 2 ** 63, 2 ** 70)] +
          [{"shape": [2, 3, 2], "kind": k, "R": 1, "radius": rr, "centre": [1, 2, 1], "light": True} for k in ("moore", "neumann") for rr in (2 ** 63 - 1, 2 ** 64)] +
          [{"shape": sh, "kind": k, "R": 3, "with_component": True, "light": True} for sh in ([2, 2, 0], [3, 1, 2]) for k in ("moore", "neumann")] +
          # one large world: windows of several hundred cells (a query over 9x9x9 cells clipped to 8x8x8)
          [{"shape": [8, 8, 8], "kind": k, "R": 4, "Rmin": 4, "centre_box": [3, 4], "light": True} for k in ("moore",)],     # (the von Neumann twin of this partition did not finish in 900 s)
          labels=("nonempty",), timeout=900, group=1, encoded=enc[:2],
          bounds={"small worlds": "every centre, radius <= %d" % (1 if tier == "quick" else 2), "large world": "8x8x8, radius 4, centres 3..4 per axis"}),
        X("x_two_worlds", x_two_worlds,
          parts=[{"first": f, "second": sd, "kind": k, "R": 1 if tier == "quick" else 2} for k in ("moore", "neumann")
                 for f, sd in (([4, 0, 0], [3, 3, 0]), ([0, 0, 3], [2, 2, 2]), ([3, 2, 0], [3, 0, 2]))],
          labels=("nonempty",), timeout=900, group=1, encoded=enc[:2],
          bounds={"worlds": "3 pairs of shapes with different axes in use", "radius": "<= %d" % (1 if tier == "quick" else 2)}),
        X("x_component_centre", x_component_centre,
          parts=[{"kind": k, "frac": f, "start": st, "r": rr} for k in ("moore", "neumann")
                 for f, st, rr in (([0.0, 0.0], [1, 1], 1), ([0.5, 0.25], [3, 2], 1), ([0.99, 0.01], [0, 0], 2 if tier != "quick" else 0))],
          labels=("moved",), timeout=900, encoded=enc[:3],
          bounds={"world": "4x3 grid", "first cell, radius, in-cell offset": "3 concrete combinations", "second cell": "any"}),
        X("dispatch", dispatch, labels=("modes", "bad_mode", "bad_ret_type"), timeout=600, encoded=enc[4:] + enc[:2]),
    ]
