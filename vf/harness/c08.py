"""C08 - agents stay inside the world; moves are exactly modular or saturating (engine X for ints, engine K for doubles).

Invariant I8: every resident's position lies in [0, extent - offset] on every axis with extent > 0
(offset 0 in continuous worlds, 1 in grid worlds).
"""
import vf.hx as hx
from vf.spec import X, K
from vf.stubs import NULL_LOGGER
from ECAgent.Core import Model, Agent, ComponentNotFoundError
import ECAgent.Environments as Env
from ECAgent.Environments import PositionComponent, SpaceWorld

_REAL = {}


def _real():
    if not _REAL:
        _REAL['line'] = Env.LineWorld(Model(), 5)
        _REAL['line_wrap'] = Env.LineWorld(Model(), 4, wrap_env=True)
        _REAL['grid'] = Env.GridWorld(Model(), 4, 3)
        _REAL['grid_wrap'] = Env.GridWorld(Model(), 3, 5, wrap_env=True)
        _REAL['discrete'] = Env.DiscreteWorld(Model(), 3, 2, 4)
        _REAL['discrete_wrap'] = Env.DiscreteWorld(Model(), 2, 3, 2, wrap_env=True)
        _REAL['discrete_flat'] = Env.DiscreteWorld(Model(), 3, 0, 2)
        _REAL['discrete_nox'] = Env.DiscreteWorld(Model(), 0, 4, 3)          # a generic grid without an x axis
        _REAL['discrete_nox_wrap'] = Env.DiscreteWorld(Model(), 0, 3, 5, wrap_env=True)


_real()


def _world(m, kind, w, h, d, wrap):
    if kind == 'space' and hx.P.get('positional_ctor'):
        # the documented parameter order, passed positionally: (model, width, height, depth, id, wrap_env)
        env = SpaceWorld(m, w, h, d, 'pond', wrap)
    elif kind == 'space':
        env = SpaceWorld(m, w, h, d, wrap_env=wrap)
    elif kind == 'gridlike':
        env = SpaceWorld(m, w, h, d, wrap_env=wrap)
        env._index_offset = 1
    else:
        env = _REAL[kind]
        env.agents.clear()
        env.components.clear()
        env.set_model(m)
    m.environment = env
    return env


def _offset(env, kind):
    """largest legal coordinate = extent - offset: grid worlds index cells 0..extent-1, continuous worlds span 0..extent.
    Decided by the KIND of world, never read back from the implementation."""
    return 1 if kind == 'gridlike' or isinstance(env, Env.DiscreteWorld) else 0


class HomeComponent(PositionComponent):
    """a user component derived from PositionComponent (say, the agent's nest): NOT the agent's position"""


def _place(m, env, name, x, y, z):
    """a resident at an arbitrary position, written directly (I8 is assumed by the caller's precondition)"""
    a = Agent(name, m)
    if hx.P.get('position_subclass'):
        a.add_component(HomeComponent(a, m, 1, 1, 0))       # attached first
    a.add_component(PositionComponent(a, m, x, y, z))
    env.agents[a.id] = a
    return a


def _inside(env, off, x, y, z):
    for e, p in ((env.width, x), (env.height, y), (env.depth, z)):
        if e > 0 and not (0 <= p <= e - off):
            return False
    return True


def _axis_after_move(e, off, wrap, p, dlt):
    if wrap:
        return (p + dlt) % e if e != 0 else p
    s = p + dlt
    hi = e - off
    # saturate to [0, extent - offset]; on a zero-extent axis the world's arithmetic gives max(min(s, -off), 0) = 0
    if s > hi:
        s = hi
    if s < 0:
        s = 0
    return s


def move_int(w: int, h: int, d: int, x: int, y: int, z: int, dx: int, dy: int, dz: int, x2: int) -> bool:
    """
    pre: w >= 0 and h >= 0 and d >= 0
    post: _
    """
    hx.begin()
    kind, wrap = hx.P['world'], hx.P['wrap']
    if 'concrete' in hx.P:
        # start and first step fixed by the partition (plain Python numbers all the way: library calls that hand back
        # values of another numeric type, e.g. numpy scalars, behave differently on symbolic proxies)
        x, y, z, dx, dy, dz = hx.P['concrete']
    m = Model(logger=NULL_LOGGER)
    env = _world(m, kind, w, h, d, wrap)
    off = _offset(env, kind)
    if not _inside(env, off, x, y, z):
        return hx.end(True)                  # I8 is the precondition
    a = _place(m, env, "a", x, y, z)
    b = _place(m, env, "b", x2 if _inside(env, off, x2, y, z) else x, y, z)     # a bystander
    bpos = b[PositionComponent].xyz()
    env.move(a, dx, dy, dz)
    p = a[PositionComponent]
    ww, hh, dd = env.width, env.height, env.depth
    wraps = wrap                   # (what the world was BUILT as - by the partition - not read back from the object)
    ex = _axis_after_move(ww, off, wraps, x, dx)
    ey = _axis_after_move(hh, off, wraps, y, dy)
    ez = _axis_after_move(dd, off, wraps, z, dz)
    if not wraps and (ww == 0 or hh == 0 or dd == 0):
        # zero-extent axis in a clamping world: the coordinate is not constrained by I8; the property only fixes
        # positive-extent axes.  (The code sends it to 0.)
        if ww == 0:
            ex = p.x
        if hh == 0:
            ey = p.y
        if dd == 0:
            ez = p.z
    if x + dx > ww > 0 or x + dx < 0:
        hx.reach('leaves_range')
    else:
        hx.reach('stays_in_range')
    if p.x != ex or p.y != ey or p.z != ez:
        return hx.end(hx.fail("position after move", got=(p.x, p.y, p.z), exp=(ex, ey, ez), old=(x, y, z), delta=(dx, dy, dz),
                              extents=(ww, hh, dd), wrap=wraps, offset=off))
    if not _inside(env, off, p.x, p.y, p.z):
        return hx.end(hx.fail("agent left the world", pos=(p.x, p.y, p.z), extents=(ww, hh, dd)))
    if b[PositionComponent].xyz() != bpos:
        return hx.end(hx.fail("moving one agent moved another"))
    # a SECOND move, by a step far beyond any machine word: coordinates stay exact integers whatever happened before
    huge = 2 ** 63 - 1
    x_now, y_now = ex, ey             # (the oracle's own numbers, not read back from the component)
    env.move(a, huge, -huge, 0)
    ex2 = _axis_after_move(ww, off, wraps, x_now, huge)
    ey2 = _axis_after_move(hh, off, wraps, y_now, -huge)
    if (ww > 0 or wraps) and p.x != ex2 or (hh > 0 or wraps) and p.y != ey2:
        return hx.end(hx.fail("position after a second, very large move", got=(p.x, p.y), exp=(ex2, ey2), before=(x_now, y_now),
                              extents=(ww, hh, dd), wrap=wraps))
    return hx.end(True)


def move_to_int(w: int, h: int, d: int, x: int, y: int, z: int, nx: int, ny: int, nz: int) -> bool:
    """
    pre: w >= 0 and h >= 0 and d >= 0
    post: _
    """
    hx.begin()
    kind = hx.P['world']
    m = Model(logger=NULL_LOGGER)
    env = _world(m, kind, w, h, d, hx.P.get('wrap', False))     # (a toroidal world bounds absolute moves like any other)
    off = _offset(env, kind)
    if not _inside(env, off, x, y, z):
        return hx.end(True)
    a = _place(m, env, "a", x, y, z)
    ok_target = _inside(env, off, nx, ny, nz)
    raised = None
    try:
        env.move_to(a, nx, ny, nz)
    except IndexError:
        raised = 'IndexError'
    p = a[PositionComponent]
    if ok_target:
        hx.reach('accepted')
        if raised is not None or (p.x, p.y, p.z) != (nx, ny, nz):
            return hx.end(hx.fail("accepted absolute move", raised=raised, got=(p.x, p.y, p.z), want=(nx, ny, nz),
                                  extents=(env.width, env.height, env.depth)))
    else:
        hx.reach('rejected')
        if raised != 'IndexError' or (p.x, p.y, p.z) != (x, y, z):
            return hx.end(hx.fail("rejected absolute move must raise IndexError and change nothing", raised=raised,
                                  got=(p.x, p.y, p.z), old=(x, y, z), target=(nx, ny, nz),
                                  extents=(env.width, env.height, env.depth)))
    return hx.end(True)


def no_position(dx: int, nx: int) -> bool:
    """
    post: _
    """
    hx.begin()
    m = Model(logger=NULL_LOGGER)
    env = _world(m, hx.P['world'], 4, 4, 0, False)
    a = Agent("stranger", m)
    hx.reach('checked')
    for f in (lambda: env.move(a, dx), lambda: env.move_to(a, nx)):
        try:
            f()
            return hx.end(hx.fail("agent without a position was moved"))
        except ComponentNotFoundError:
            pass
    return hx.end(len(a.components) == 0)


def place_int(w: int, h: int, d: int, x: int, y: int, z: int, x2: int, y2: int) -> bool:
    """
    pre: w >= 0 and h >= 0 and d >= 0
    post: _
    """
    hx.begin()
    kind = hx.P['world']
    m = Model(logger=NULL_LOGGER)
    env = _world(m, kind, w, h, d, hx.P.get('wrap', False))
    off = _offset(env, kind)
    from ECAgent.Core import Environment
    a = Environment(m, id="a") if hx.P.get('nested') else Agent("a", m)     # environments are agents too (empty here)
    if hx.P.get('position_subclass'):
        a.add_component(HomeComponent(a, m, 1, 1, 0))      # a user component derived from PositionComponent, attached before joining
    alias = hx.P.get('alias', False)
    inside = _inside(env, off, x, y, z)
    raised = None
    try:
        if alias and (x, y, z) == (0, 0, 0):
            env.addAgent(a)                   # deprecated alias of add_agent (no position arguments): lands at the origin
        else:
            env.add_agent(a, x, y, z)
    except Exception as e:
        raised = type(e).__name__
    if inside:
        hx.reach('accepted')
        p = a[PositionComponent]
        if raised is not None or p is None or (p.x, p.y, p.z) != (x, y, z) or env.get_agent("a") is not a:
            return hx.end(hx.fail("accepted placement", raised=raised))
        if alias:
            import warnings
            warnings.simplefilter("ignore")
            if p.getPosition() != (x, y, z) or p.xyz() != (x, y, z) or p.xy() != (x, y) or p.yz() != (y, z) or p.xz() != (x, z):
                return hx.end(hx.fail("position accessors disagree"))
        # placing the same (resident) agent again, anywhere, is rejected and changes nothing - not even its position
        try:
            env.add_agent(a, x2, y2, z)
            return hx.end(hx.fail("a resident agent was placed a second time"))
        except Exception:
            pass
        q = a[PositionComponent]
        if q is not p or (q.x, q.y, q.z) != (x, y, z) or len(env.agents) != 1:
            return hx.end(hx.fail("a rejected second placement changed the agent's position", requested=(x2, y2, z),
                                  before=(x, y, z), after=None if q is None else (q.x, q.y, q.z)))
        if alias:
            env.removeAgent("a")       # deprecated alias of remove_agent
        else:
            env.remove_agent("a")      # leaving the world drops the position
        if PositionComponent in a or env.get_agent("a") is not None:
            return hx.end(hx.fail("leaving the world did not drop the position"))
    else:
        hx.reach('rejected')
        if raised != 'Exception' or PositionComponent in a or len(env.agents) != 0:
            return hx.end(hx.fail("rejected placement must change nothing", raised=raised))
    return hx.end(True)


def history(x: int, y: int, a0: int, b0: int, a1: int, b1: int, a2: int, b2: int, a3: int, b3: int) -> bool:
    """
    post: _
    """
    # from the empty world through the public API: two agents, k operations, I8 after every step
    hx.begin()
    kind, ops = hx.P['world'], hx.P['ops']
    m = Model(logger=NULL_LOGGER)
    env = _world(m, kind, 4, 3, 0, hx.P.get('wrap', False))
    off = _offset(env, kind)
    ags = [Agent("p", m), Agent("q", m)]
    res = [False, False]
    args = [(a0, b0), (a1, b1), (a2, b2), (a3, b3)]
    for k, op in enumerate(ops):
        who = 0 if op.islower() else 1
        a = ags[who]
        u, v = args[k]
        o = op.lower()
        try:
            if o == 'a':
                if res[who]:
                    return hx.end(True)
                env.add_agent(a, u, v)
                res[who] = True
            elif o == 'm':
                if not res[who]:
                    return hx.end(True)
                env.move(a, u, v)
            elif o == 't':
                if not res[who]:
                    return hx.end(True)
                env.move_to(a, u, v)
            else:
                if not res[who]:
                    return hx.end(True)
                env.remove_agent(a.id)
                res[who] = False
        except IndexError:
            pass
        except Exception as e:
            if type(e) is not Exception:
                raise
        for i in (0, 1):
            p = ags[i][PositionComponent]
            inenv = ags[i].id in env.agents
            if (p is not None) != inenv:
                return hx.end(hx.fail("position component presence != residency", step=k))
            if p is not None and not _inside(env, off, p.x, p.y, p.z):
                return hx.end(hx.fail("agent outside the world", step=k, pos=(p.x, p.y, p.z), ops=ops))
    hx.reach('done')
    return hx.end(True)


def _hist_parts(k, worlds):
    import itertools
    out = []
    for w, wrap in worlds:
        for t in itertools.product("amtrAM", repeat=k):
            s = "".join(t)
            if s[0] != 'a':
                continue
            if ('M' in s) and ('A' not in s[:s.index('M')]):
                continue
            if 'm' not in s and 't' not in s and 'M' not in s:
                continue
            # applicability of lower-case ops for agent p
            resid = False
            ok = True
            for ch in s:
                if ch == 'a':
                    if resid:
                        ok = False
                    resid = True
                elif ch in 'mtr':
                    if not resid:
                        ok = False
                    if ch == 'r':
                        resid = False
            if ok and s.count('A') <= 1:
                out.append({"world": w, "wrap": wrap, "ops": s})
    return out


# ------------------------------------------------------------------------------------------------ engine K (Float64)

def k_move_fp(ctx):
    from vf import kq_spatial
    return kq_spatial.move_fp(ctx)


def k_move_int(ctx):
    from vf import kq_spatial
    return kq_spatial.move_int_k(ctx)


def k_move_to_fp(ctx):
    from vf import kq_spatial
    return kq_spatial.move_to_fp(ctx)


def k_place_fp(ctx):
    from vf import kq_spatial
    return kq_spatial.place_fp(ctx)


BOUNDS = {"ints": {"extents": "all ints >= 0", "positions, deltas, targets": "all ints (multi-lap wraps, far out-of-range moves)"},
          "doubles (engine K)": {"extents": "0 or >= 1, finite", "positions": "any I8 position", "delta/target": "all finite doubles",
                                 "wrapping": "not encoded"},
          "history": "<= 3/4 operations, 2 agents"}
OUTSIDE = ["wrapping moves with non-integral float coordinates (Python's float % has no tractable SMT encoding here; DESIGN.md section 6)",
           "NaN/inf arguments", "extents in (0,1) (excluded by the property)"]
STUBS = ["real LineWorld/GridWorld/DiscreteWorld built once concretely; agents/components/model reset per path", "Model.logger replaced by a no-op logger",
         "f-strings formatting symbolic numbers yield an opaque placeholder (error messages)"]
ASSUMPTIONS = ["pre-states: any position satisfying I8, written directly into a PositionComponent"]


def obligations(tier):
    enc = (SpaceWorld.move, SpaceWorld.move_to, SpaceWorld.add_agent, SpaceWorld.remove_agent)
    sym = [("space", False), ("space", True), ("gridlike", False), ("gridlike", True)]
    real = [("line", False), ("line_wrap", True), ("grid", False), ("grid_wrap", True), ("discrete", False), ("discrete_wrap", True),
            ("discrete_flat", False), ("discrete_nox", False), ("discrete_nox_wrap", True)]
    if tier == "quick":
        real = [("line_wrap", True), ("grid", False), ("discrete_flat", False), ("discrete_nox", False), ("discrete_nox_wrap", True)]
    k = 3 if tier == "quick" else 4
    obs = [
        X("move_int", move_int, parts=[{"world": w, "wrap": wr} for w, wr in sym + real] + [{"world": "space", "wrap": False, "position_subclass": True}] +
          [{"world": "space", "wrap": wr, "positional_ctor": True} for wr in (False, True)] +
          [{"world": "grid", "wrap": False, "concrete": [1, 1, 0, 1, 0, 0]}, {"world": "line_wrap", "wrap": True, "concrete": [1, 0, 0, 2, 0, 0]}],
          labels=("leaves_range", "stays_in_range"),
          timeout=1200, encoded=enc, bounds={"extents,position,delta": "all ints"}),
        X("move_to_int", move_to_int, parts=[{"world": w} for w in ["space", "gridlike"] + [r for r, wr in real if not wr]] +
          [{"world": w, "wrap": True} for w in ["space", "gridlike"] + [r for r, wr in real if wr]] + [{"world": "space", "position_subclass": True}],
          labels=("accepted", "rejected"), timeout=1200, encoded=enc),
        X("place_int", place_int, parts=[{"world": w} for w in ["space", "gridlike"] + [r for r, wr in real if not wr]] +
          [{"world": "space", "nested": True}, {"world": "grid", "nested": True}, {"world": "space", "alias": True}, {"world": "grid", "alias": True}] +
          [{"world": w, "wrap": True} for w in ("space", "gridlike")] + [{"world": "space", "position_subclass": True}],
          labels=("accepted", "rejected"), timeout=1200, encoded=enc),
        X("no_position", no_position, parts=[{"world": "space"}, {"world": "grid"}], labels=("checked",), timeout=120, encoded=enc),
        X("history", history, parts=_hist_parts(k, [("space", False), ("grid", False)] + ([("gridlike", True)] if tier != "quick" else [])),
          labels=("done",), timeout=600, group=4, encoded=enc, bounds={"operations": "<= %d, 2 agents, world 4x3" % k}),
        K("move_int_k", k_move_int, timeout=300, encoded=(SpaceWorld.move,),
          bounds={"ints": "all extents >= 0, offset 0/1, wrap on/off, any I8 position, any delta (second engine for move_int)"}),
        K("move_fp", k_move_fp, timeout=300, encoded=(SpaceWorld.move,),
          bounds={"doubles": "all finite; extents 0 or >= 1; any I8 position; non-wrapping continuous world"}),
        K("move_to_fp", k_move_to_fp, timeout=300, encoded=(SpaceWorld.move_to,), bounds={"doubles": "all finite; extents 0 or >= 1"}),
        K("place_fp", k_place_fp, timeout=300, encoded=(SpaceWorld.add_agent,), bounds={"doubles": "all finite; extents 0 or >= 1"}),
    ]
    return obs
