"""C13 - agent queries are exact filters; random picks stay within the filter (engine X)."""
import vf.hx as hx
from vf.spec import X
from vf.stubs import SymRandom, NULL_LOGGER
from ECAgent.Core import Model, Agent, Component, Environment


class T0(Component):
    pass


class T1(Component):
    pass


class T2(Component):
    """a component that is falsy as an object (container-like, currently empty)"""

    def __len__(self):
        return 0


def _population(m, n, comps, tags):
    """n residents in join order; comps[i] = (has T1, has T2); tags[i] any int.  Written directly into env.agents, or -
    partition flag 'api' - joined through add_agent (so that the component pools exist).  Flag 'nested': the first
    resident is itself an Environment (environments are agents and may be residents of another environment)."""
    res = []
    for i in range(n):
        if i == 0 and hx.P.get('nested'):
            a = Environment(m, id="a0")
            a.tag = tags[0]
        else:
            a = Agent("a%d" % i, m, tag=tags[i])
        if comps[i][0]:
            a.add_component(T1(a, m))
        if comps[i][1]:
            a.add_component(T2(a, m))
        if hx.P.get('api'):
            m.environment.add_agent(a)
        else:
            m.environment.agents[a.id] = a
        res.append(a)
    return res


class _NoGlobalRandom:
    """any use of the process-global generator by the framework is a violation (C07 decides non-interference in full;
    here it keeps the pick deterministic)"""

    def __enter__(self):
        import random as _r

        def trap(*a, **k):
            raise AssertionError("the process-global random generator was used for a model-level random service")
        self.saved = [(n, getattr(_r, n)) for n in ("choice", "shuffle", "randrange", "randint", "random", "sample")]
        for n, _ in self.saved:
            setattr(_r, n, trap)
        return self

    def __exit__(self, *a):
        import random as _r
        for n, v in self.saved:
            setattr(_r, n, v)
        return False


def _template(w1, w2, w0, swap):
    t = []
    if w1:
        t.append(T1)
    if w2:
        t.append(T2)
    if w0:
        t.append(T0)
    if swap:
        t.reverse()
    return t


def template_filter(a1: bool, a2: bool, b1: bool, b2: bool, c1: bool, c2: bool, w1: bool, w2: bool, w0: bool,
                    swap: bool) -> bool:
    """
    post: _
    """
    hx.begin()
    n = hx.P['n']
    m = Model(logger=NULL_LOGGER)
    res = _population(m, n, [(a1, a2), (b1, b2), (c1, c2)], [0, 0, 0])
    tmpl = _template(w1, w2, w0, swap)
    if hx.P.get('alias'):
        import warnings
        warnings.simplefilter("ignore")
        got = m.environment.getAgents(*tmpl)            # deprecated alias of get_agents
        for a in res:
            if a.hasComponent(*tmpl) != a.has_component(*tmpl):
                return hx.end(hx.fail("hasComponent differs from has_component"))
    else:
        got = m.environment.get_agents(*tmpl)
    exp = []
    for a in res:
        ok = True
        for T in tmpl:
            if T not in a.components:
                ok = False
        if ok:
            exp.append(a)
    if len(exp) not in (0, n):
        hx.reach('proper_subset')
    if len(tmpl) == 0:
        hx.reach('empty_template')
    if not hx.same_seq(got, exp):
        return hx.end(hx.fail("template filter", template=[T.__name__ for T in tmpl], got=[a.id for a in got],
                              exp=[a.id for a in exp]))
    # a fresh list: the caller may modify it
    got.append(None)
    got.reverse()
    again = m.environment.get_agents(*tmpl)
    if not hx.same_seq(again, exp) or not hx.same_seq(list(m.environment.agents.values()), res):
        return hx.end(hx.fail("modifying the returned list changed the environment or the next result"))
    return hx.end(True)


def tag_filter(t0: int, t1: int, t2: int, use_tag: bool, tag: int, a1: bool, b1: bool, c1: bool, w1: bool) -> bool:
    """
    post: _
    """
    hx.begin()
    n = hx.P['n']
    if hx.P.get('big_tags'):
        # tag values outside the interpreter's small-integer cache, each computed afresh (equal values, distinct objects)
        t0, t1, t2, tag = t0 + 100000, t1 + 100000, t2 + 100000, tag + 100000
    m = Model(logger=NULL_LOGGER)
    res = _population(m, n, [(a1, False), (b1, False), (c1, False)], [t0, t1, t2])
    tmpl = [T1] if w1 else []
    if use_tag:
        got = m.environment.get_agents(*tmpl, tag=tag)
    else:
        got = m.environment.get_agents(*tmpl)
    exp = []
    for a in res:
        if w1 and T1 not in a.components:
            continue
        if use_tag and a.tag != tag:
            continue
        exp.append(a)
    if use_tag and tag == (100000 if hx.P.get('big_tags') else 0) and len(exp) < n:
        hx.reach('tag_zero_filters')
    if use_tag and len(exp) > 0:
        hx.reach('tag_matches')
    if not hx.same_seq(got, exp):
        return hx.end(hx.fail("tag filter", tag=tag if use_tag else None, tags=[a.tag for a in res],
                              got=[a.id for a in got], exp=[a.id for a in exp]))
    return hx.end(True)


def random_pick(a1: bool, b1: bool, c1: bool, d1: bool, t0: int, t1: int, t2: int, t3: int, w1: bool, use_tag: bool,
                tag: int, r: int) -> bool:
    """
    pre: r >= 0
    post: _
    """
    hx.begin()
    n = hx.P['n']
    m = Model(logger=NULL_LOGGER)
    rng = SymRandom([r])
    m.random = rng
    res = _population(m, n, [(a1, False), (b1, False), (c1, False), (d1, False)], [t0, t1, t2, t3])
    tmpl = [T1] if w1 else []
    spec = []
    for a in res:
        if w1 and T1 not in a.components:
            continue
        if use_tag and a.tag != tag:
            continue
        spec.append(a)
    kw = {"tag": tag} if use_tag else {}
    if hx.P.get('completed'):
        m.complete()                  # post-run sampling: a finished model's environment still answers queries
    if hx.P.get('second_env'):
        # another environment of the same model (environments can be nested / created standalone) with its own resident:
        # that agent is not in THIS environment and must never be picked or listed
        other_env = Environment(m, id="elsewhere")
        stranger = Agent("stranger", m, tag=t0)
        stranger.add_component(T1(stranger, m))
        other_env.add_agent(stranger)
    with _NoGlobalRandom():
        if hx.P.get('alias') and not use_tag:
            import warnings
            warnings.simplefilter("ignore")
            got = m.environment.getRandomAgent(*tmpl)    # deprecated alias of get_random_agent
        else:
            got = m.environment.get_random_agent(*tmpl, **kw)
    if len(spec) == 0:
        hx.reach('none')
        if got is not None:
            return hx.end(hx.fail("pick from an empty filter is not None"))
    else:
        # random.Random.choice(seq) = seq[_randbelow(len(seq))]: with an arbitrary draw r, the pick is spec[r mod k];
        # hence always a member, and every member is reachable (r ranges over all residues)
        want = hx.pick(spec, r % len(spec))
        if len(spec) >= 2 and r % len(spec) == len(spec) - 1:
            hx.reach('last_member')
        if len(spec) < n:
            hx.reach('filtered_pick')
        if got is not want:
            return hx.end(hx.fail("random pick", got=None if got is None else got.id, want=want.id,
                                  filter=[a.id for a in spec]))
        if rng.draws != [(len(spec), r % len(spec))]:
            return hx.end(hx.fail("draws taken from the model generator", draws=rng.draws))
    if not hx.same_seq(list(m.environment.agents.values()), res):
        return hx.end(hx.fail("random pick altered the environment"))
    return hx.end(True)


def shuffle_perm(a1: bool, b1: bool, c1: bool, d1: bool, w1: bool, r0: int, r1: int, r2: int,
                 g0: bool, g1: bool, g2: bool, g3: bool, use_tag: bool) -> bool:
    """
    pre: r0 >= 0 and r1 >= 0 and r2 >= 0
    post: _
    """
    hx.begin()
    n = hx.P['n']
    m = Model(logger=NULL_LOGGER)
    m.random = SymRandom([r0, r1, r2])
    tags = [1 if g else 0 for g in (g0, g1, g2, g3)]
    res = _population(m, n, [(a1, False), (b1, False), (c1, False), (d1, False)], tags)
    tmpl = [T1] if w1 else []
    kw = {"tag": 1} if use_tag else {}
    spec = [a for a in res if ((not w1) or T1 in a.components) and ((not use_tag) or a.tag == 1)]
    if use_tag and len(spec) < n:
        hx.reach('tag_filtered_shuffle')
    if hx.P.get('elsewhere'):
        # the environment queried is NOT model.environment (a holding container / the former environment)
        shown = Environment(m, id="FIELD")
        x = Agent("field0", m)
        x.add_component(T1(x, m))
        shown.add_agent(x)
        queried = m.environment
        m.set_environment(shown)
        got = queried.shuffle(*tmpl, **kw)
    else:
        got = m.environment.shuffle(*tmpl, **kw)
    # Fisher-Yates as random.Random.shuffle performs it, driven by the same stream
    exp = list(spec)
    rs = [r0, r1, r2]
    k = 0
    for i in reversed(range(1, len(exp))):
        j = rs[k] % (i + 1)
        k += 1
        for c in range(i + 1):
            if j == c:
                exp[i], exp[c] = exp[c], exp[i]
    if len(spec) >= 2:
        hx.reach('shuffled')
    if len(spec) < n:
        hx.reach('filtered_shuffle')
    if not hx.same_seq(got, exp):
        return hx.end(hx.fail("shuffle result", got=[a.id for a in got], exp=[a.id for a in exp]))
    # a permutation of exactly the filtered agents
    for a in spec:
        cnt = 0
        for b in got:
            if b is a:
                cnt += 1
        if cnt != 1:
            return hx.end(hx.fail("shuffle is not a permutation of the filtered agents"))
    env_q = queried if hx.P.get('elsewhere') else m.environment
    if not hx.same_seq(list(env_q.agents.values()), res):
        return hx.end(hx.fail("shuffle altered the environment order"))
    got.append(None)
    if len(env_q.get_agents()) != n:
        return hx.end(hx.fail("shuffle returned the environment's own list"))
    return hx.end(True)


def after_history(i0: int, i1: int, i2: int, i3: int, w1: bool, use_tag: bool, tag: int) -> bool:
    """
    pre: 0 <= i0 < 3 and 0 <= i1 < 3 and 0 <= i2 < 3 and 0 <= i3 < 3
    post: _
    """
    # the population is produced by a history of add/remove through the API, with queries in between (stale caches!)
    hx.begin()
    ops = hx.P['ops']
    m = Model(logger=NULL_LOGGER)
    env = m.environment
    pool = [Agent("x", m, tag=1), Agent("y", m, tag=0), Agent("z", m, tag=1)]
    pool[0].add_component(T1(pool[0], m))
    pool[2].add_component(T1(pool[2], m))
    ref = []
    idx = [i0, i1, i2, i3]
    tmpl = [T1] if w1 else []
    kw = {"tag": tag} if use_tag else {}
    for k, op in enumerate(ops):
        a = hx.pick(pool, idx[k])
        inref = False
        for x in ref:
            if x is a:
                inref = True
        if op == 'a':
            if inref:
                return hx.end(True)
            env.add_agent(a)
            ref.append(a)
        elif op == 'r':
            if not inref:
                return hx.end(True)
            env.remove_agent(a.id)
            ref.remove(a)
        elif op == 'f':
            # a removal that FAILS half-way (the resident gained a component nobody registered, so deregistering it raises):
            # if it fails the agent keeps its place in the joining order; if it succeeds the agent is gone
            if not inref or T2 in a.components:
                return hx.end(True)
            a.add_component(T2(a, m))
            try:
                env.remove_agent(a.id)
                ref.remove(a)
            except KeyError:
                hx.reach('removal_failed')
        if k < len(ops) - 1 and hx.P['q'][k] == '0':
            continue                    # no query after this step (queries may fill caches: every pattern is a partition)
        exp = [x for x in ref if ((not w1) or T1 in x.components) and ((not use_tag) or x.tag == tag)]
        got = env.get_agents(*tmpl, **kw)
        if not hx.same_seq(got, exp):
            return hx.end(hx.fail("query after history", step=k, ops=ops, got=[x.id for x in got], exp=[x.id for x in exp]))
        if not hx.same_seq(env.get_agents(), ref):
            return hx.end(hx.fail("unfiltered listing after history", step=k, got=[x.id for x in env.get_agents()],
                                  exp=[x.id for x in ref]))
    hx.reach('done')
    return hx.end(True)


def _hist(k):
    import itertools
    out = []
    for t in itertools.product("ar", repeat=k):
        s = "".join(t)
        n = 0
        ok = True
        for ch in s:
            n += 1 if ch == 'a' else -1
            if n < 0 or n > 3:
                ok = False
        if ok and 'r' in s:
            for q in itertools.product("01", repeat=k - 1):
                out.append({"ops": s, "q": "".join(q)})
    return out


BOUNDS = {"quick": {"agents": "<= 3 (4 for picks)", "component types": "T1,T2 + T0 nobody has", "tags": "all ints", "draws": "all non-negative ints"},
          "thorough": {"agents": "<= 3 (4 for picks)", "history": "<= 4 add/remove", "tags": "all ints"}}
OUTSIDE = ["more than 4 agents", "random.Random.choice/shuffle themselves (stdlib; they run unmodified on the stubbed core draw)"]
STUBS = ["model.random = SymRandom(stream): _randbelow(n) returns (next symbolic stream value) mod n - 'an arbitrary value in range'",
         "Model.logger replaced by a no-op logger"]
ASSUMPTIONS = ["populations are written directly into environment.agents (any insertion-ordered map of distinct ids is reachable by add_agent)",
               "every member is reachable by the pick because the draw ranges over all residues mod the filter size (witnessed by the twin)"]


def obligations(tier):
    enc = (Environment.get_agents, Agent.has_component)
    return [
        X("template_filter", template_filter, parts=[{"n": n} for n in (0, 2, 3)] + [{"n": 2, "nested": True}, {"n": 2, "api": True}, {"n": 2, "alias": True}],
          labels=("proper_subset", "empty_template"),
          labels_for=lambda p: ("proper_subset", "empty_template") if p["n"] else ("empty_template",), timeout=600, encoded=enc,
          bounds={"agents": "0,2,3", "template": "any subset of {T1,T2,T0}, either order"}),
        X("tag_filter", tag_filter, parts=[{"n": n} for n in (1, 3)] + [{"n": 2, "big_tags": True}], labels=("tag_zero_filters", "tag_matches"), timeout=600,
          encoded=enc, bounds={"tags": "all ints incl. 0 and unregistered", "filter": "None or any int"}),
        X("random_pick", random_pick, parts=[{"n": n} for n in ((0, 2, 3) if tier == "quick" else (0, 1, 2, 3, 4))] +
          [{"n": 2, "api": True}, {"n": 3, "api": True, "nested": True}, {"n": 2, "api": True, "second_env": True}, {"n": 2, "alias": True},
           {"n": 2, "completed": True}],
          labels=("none", "last_member", "filtered_pick"),
          labels_for=lambda p: ("none",) if p["n"] == 0 else ("none", "last_member", "filtered_pick"), timeout=900,
          encoded=(Environment.get_random_agent, Environment.get_agents), bounds={"draw": "any int >= 0"}),
        X("shuffle_perm", shuffle_perm, parts=[{"n": n} for n in ((2, 3) if tier == "quick" else (1, 2, 3, 4))] + [{"n": 2, "elsewhere": True}],
          labels=("shuffled", "filtered_shuffle", "tag_filtered_shuffle"), timeout=900, encoded=(Environment.shuffle, Environment.get_agents)),
        X("after_history", after_history, parts=_hist(3 if tier == "quick" else 4) +
          [{"ops": "aaf", "q": "01"}, {"ops": "aaaf", "q": "101"}, {"ops": "aafa", "q": "010"}], labels=("done",), timeout=300, group=4,
          encoded=enc + (Environment.add_agent, Environment.remove_agent)),
    ]
