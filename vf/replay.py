"""Concrete replay of an X counterexample: the same harness body, concrete arguments, plain interpreter, no CrossHair.

stdin : JSON {module, fn, part, args, kwargs}
stdout: JSON {reproduced: bool, outcome: 'returned False'|'returned True'|'raised', exception, details}
"""
import importlib
import json
import sys
import traceback


def main():
    spec = json.load(sys.stdin)
    import vf.hx as hx
    hx.CONCRETE = True
    hx.MODE = "check"
    hx.P = spec["part"]
    mod = importlib.import_module(spec["module"])
    fn = getattr(mod, spec["fn"])
    out = {"reproduced": None, "outcome": None, "exception": None, "details": None}
    try:
        r = fn(*spec["args"], **spec["kwargs"])
        out["outcome"] = "returned %r" % (r,)
        out["reproduced"] = (r is False) or (r is not True and not r)
    except hx.StubLimit as e:
        out["outcome"] = "StubLimit"
        out["exception"] = repr(e)
        out["reproduced"] = None
    except Exception as e:
        out["outcome"] = "raised"
        out["exception"] = "".join(traceback.format_exception_only(type(e), e)).strip()
        out["traceback"] = traceback.format_exc()[-1500:]
        out["reproduced"] = True
    out["details"] = list(hx.DETAILS)
    # does the precondition hold for these arguments?  (a cex outside the precondition would be an engine fault)
    json.dump(out, sys.stdout, default=str)


if __name__ == "__main__":
    main()
