"""Environment stubs (DESIGN.md section 3.4).  Each models a narrow documented contract; anything else raises StubLimit."""
import random
from vf.hx import StubLimit


class NullLogger:
    """Logging has an empty body (logging is not the subject of any property; the stdlib logging machinery reads the
    clock/thread/frame state, which aborts CrossHair paths as 'unknown' - measured)."""

    def info(self, *a, **k):
        pass

    debug = warning = error = critical = exception = log = info

    def setLevel(self, *a):
        pass


NULL_LOGGER = NullLogger()


class SymRandom(random.Random):
    """random.Random whose core draws come from a given (symbolic) stream: 'an arbitrary value in range'.
    The pure-Python choice/shuffle/randrange of random.py still run on top of it."""

    def __init__(self, stream):
        super().__init__(0)
        self.stream = list(stream)
        self.k = 0
        self.draws = []

    def _next(self):
        if self.k >= len(self.stream):
            raise StubLimit("SymRandom stream exhausted")
        v = self.stream[self.k]
        self.k += 1
        return v

    def _randbelow(self, n):
        v = self._next() % n
        self.draws.append((n, v))
        return v

    def getrandbits(self, k):
        raise StubLimit("getrandbits not modelled")

    def random(self):
        raise StubLimit("random() not modelled")

    def seed(self, *a, **k):
        # random.Random.__init__ calls seed(); later reseeding is outside the model
        if getattr(self, "stream", None) is not None:
            raise StubLimit("reseeding not modelled")
        super().seed(*a, **k)


class Havoc:
    """Stand-in for the process-global generators: may return anything (driven by an independent symbolic stream)."""

    def __init__(self, stream):
        self.stream = list(stream)
        self.k = 0
        self.used = 0

    def _nxt(self, n):
        self.used += 1
        if self.k >= len(self.stream):
            raise StubLimit("Havoc stream exhausted")
        v = self.stream[self.k] % n
        self.k += 1
        return v

    def choice(self, seq):
        return seq[self._nxt(len(seq))]

    def shuffle(self, x):
        for i in reversed(range(1, len(x))):
            j = self._nxt(i + 1)
            x[i], x[j] = x[j], x[i]

    def randrange(self, a, b=None):
        if b is None:
            a, b = 0, a
        return a + self._nxt(b - a)

    def randint(self, a, b):
        return a + self._nxt(b - a + 1)

    def random(self):
        self._nxt(2)
        return 0.5

    def sample(self, pop, k):
        pop = list(pop)
        self.shuffle(pop)
        return pop[:k]

    def permutation(self, x):
        x = list(x) if not isinstance(x, int) else list(range(x))
        self.shuffle(x)
        return x


class FakePool:
    """multiprocessing.Pool contract: imap yields f(x) in input order; imap_unordered yields the same results in an
    arbitrary (symbolic) completion order; an exception raised by f is re-raised to the consumer at that position.
    `order` is a class attribute set by the harness: a list of symbolic ints used Lehmer-style."""
    order = []
    created = []

    def __init__(self, processes=None, *a, **k):
        if a or k:
            raise StubLimit("Pool arguments beyond `processes` not modelled")
        self.processes = processes
        FakePool.created.append(processes)

    def __enter__(self):
        return self

    def __exit__(self, *a):
        return False

    def imap(self, f, xs, chunksize=1):
        for x in list(xs):
            yield f(x)

    def imap_unordered(self, f, xs, chunksize=1):
        xs = list(xs)
        idx = list(range(len(xs)))
        k = 0
        while idx:
            o = FakePool.order[k] if k < len(FakePool.order) else 0
            k += 1
            j = 0
            # explicit case split instead of symbolic indexing
            for c in range(len(idx)):
                if o % len(idx) == c:
                    j = c
            yield f(xs[idx.pop(j)])

    def map(self, f, xs, chunksize=None):
        return [f(x) for x in list(xs)]

    def __getattr__(self, name):
        raise StubLimit("Pool.%s not modelled" % name)


class FakeFS:
    """open(name, mode) for modes 'a'/'w': append keeps, 'w' truncates, write appends in order."""

    def __init__(self):
        self.files = {}
        self.opens = 0

    def open(self, name, mode='r', *a, **k):
        if mode not in ('a', 'w') or a or k:
            raise StubLimit("open mode %r not modelled" % (mode,))
        fs = self
        fs.opens += 1
        if mode == 'w' or name not in fs.files:
            fs.files[name] = []

        class F:
            closed = False

            def write(self, s):
                if self.closed:
                    raise ValueError("I/O operation on closed file")
                fs.files[name].append(s)

            def close(self):
                self.closed = True

            def __enter__(self):
                return self

            def __exit__(self, *a):
                self.closed = True
                return False

            def __getattr__(self, n):
                raise StubLimit("file.%s not modelled" % n)
        return F()
