"""Environment stubs (DESIGN.md section 3.4).  Each models a narrow documented contract; anything else raises StubLimit."""
import random
from vf.hx import StubLimit


class NullLogger:
    """Logging has an empty body (logging is not the subject of any property; the stdlib logging machinery reads the
    clock/thread/frame state, which aborts CrossHair paths as 'unknown' - measured)."""

    def info(self, *a, **k):
        pass

    debug = warning = error = critical = exception = log = info

    def setLevel(self, *a):
        pass

    # whether a level is enabled is ambient configuration (logging.disable, the logger's own level): harnesses may set
    # `enabled` to a symbolic bool; the framework's behaviour must not depend on it
    enabled = True

    def isEnabledFor(self, level):
        return NullLogger.enabled

    def getEffectiveLevel(self):
        return 20 if NullLogger.enabled else 30

    level = 20
    disabled = False


NULL_LOGGER = NullLogger()


class SymRandom(random.Random):
    """random.Random whose core draws come from a given (symbolic) stream: 'an arbitrary value in range'.
    The pure-Python choice/shuffle/randrange of random.py still run on top of it."""

    def __init__(self, stream):
        super().__init__(0)
        self.stream = list(stream)
        self.k = 0
        self.draws = []

    def _next(self):
        if self.k >= len(self.stream):
            raise StubLimit("SymRandom stream exhausted")
        v = self.stream[self.k]
        self.k += 1
        return v

    def _randbelow(self, n):
        v = self._next() % n
        self.draws.append((n, v))
        return v

    # (CrossHair replaces random.Random.randrange/randint/random/uniform/getrandbits by contracts returning an arbitrary
    # in-range value on EVERY call - measured; the overrides below keep them functions of the stream)
    def randrange(self, start, stop=None, step=1):
        if step != 1:
            raise StubLimit("randrange with a step not modelled")
        if stop is None:
            if start <= 0:
                raise ValueError("empty range for randrange()")
            return self._randbelow(start)
        if stop - start <= 0:
            raise ValueError("empty range for randrange() (%d, %d, %d)" % (start, stop, stop - start))
        return start + self._randbelow(stop - start)

    def randint(self, a, b):
        return self.randrange(a, b + 1)

    def uniform(self, a, b):
        raise StubLimit("uniform() not modelled")

    def getrandbits(self, k):
        v = self._next() % (2 ** k)           # k bits of the stream
        self.draws.append((2 ** k, v))
        return v

    def random(self):
        raise StubLimit("random() not modelled")

    def seed(self, *a, **k):
        # random.Random.__init__ calls seed(); later reseeding is outside the model
        if getattr(self, "stream", None) is not None:
            raise StubLimit("reseeding not modelled")
        super().seed(*a, **k)


class Havoc:
    """Stand-in for the process-global generators: may return anything (driven by an independent symbolic stream)."""

    def __init__(self, stream):
        self.stream = list(stream)
        self.k = 0
        self.used = 0

    def _nxt(self, n):
        self.used += 1
        if self.k >= len(self.stream):
            raise StubLimit("Havoc stream exhausted")
        v = self.stream[self.k] % n
        self.k += 1
        return v

    def choice(self, seq):
        return seq[self._nxt(len(seq))]

    def shuffle(self, x):
        for i in reversed(range(1, len(x))):
            j = self._nxt(i + 1)
            x[i], x[j] = x[j], x[i]

    def randrange(self, a, b=None):
        if b is None:
            a, b = 0, a
        return a + self._nxt(b - a)

    def randint(self, a, b):
        return a + self._nxt(b - a + 1)

    def random(self):
        self._nxt(2)
        return 0.5

    def sample(self, pop, k):
        pop = list(pop)
        self.shuffle(pop)
        return pop[:k]

    def permutation(self, x):
        x = list(x) if not isinstance(x, int) else list(range(x))
        self.shuffle(x)
        return x


class _AsyncResult:
    def __init__(self, pool, thunk, callback, error_callback):
        self.pool, self.thunk, self.callback, self.error_callback = pool, thunk, callback, error_callback
        self.done = False
        self.value = None
        self.exc = None

    def _run(self):
        if self.done:
            return
        self.done = True
        try:
            self.value = self.thunk()
        except Exception as e:          # the worker's exception travels back to the parent as an object
            self.exc = e
            if self.error_callback is not None:
                self.error_callback(e)
            return
        if self.callback is not None:
            self.callback(self.value)

    def get(self, timeout=None):
        self.pool._run_one(self)
        if self.exc is not None:
            raise self.exc
        return self.value

    def wait(self, timeout=None):
        self.pool._run_one(self)

    def ready(self):
        return self.done

    def successful(self):
        if not self.done:
            raise ValueError("not ready")
        return self.exc is None


class _PoolIterator:
    """the iterator returned by imap / imap_unordered: __next__ returns the next result or RE-RAISES, AS IT IS, the
    exception object the worker's call ended with (so a StopIteration coming out of a worker ends a for-loop silently -
    that is how the real iterator behaves, and it matters)"""

    def __init__(self, pool, f, xs, ordered):
        self.pool, self.f, self.xs, self.ordered = pool, f, xs, ordered
        self.idx = list(range(len(xs)))

    def __iter__(self):
        return self

    def __next__(self):
        if not self.idx:
            raise StopIteration
        j = 0 if self.ordered else self.pool._choice(len(self.idx))
        i = self.idx.pop(j)
        try:
            return self.f(self.xs[i])
        except Exception as e:
            raise e

    next = __next__


class FakePool:
    """multiprocessing.Pool, documented contract only:
    imap yields f(x) in input order; imap_unordered yields the same results in an arbitrary (symbolic) completion order;
    an exception raised by f is re-raised to the consumer at that position; map/starmap return lists in input order;
    apply_async/map_async queue work that completes in arbitrary (symbolic) order no later than join()/get(): on
    success the callback receives the result, on failure the error_callback receives the exception, which is
    otherwise only re-raised by get(); join() requires close(); leaving the with-block terminates the pool,
    discarding work that has not completed.  `order` (class attribute set by the harness) drives every choice."""
    order = []
    created = []

    def __init__(self, processes=None, *a, **k):
        if a or k:
            raise StubLimit("Pool arguments beyond `processes` not modelled")
        self.processes = processes
        self.pending = []
        self.closed = False
        self.terminated = False
        self._k = 0
        FakePool.created.append(processes)

    def _choice(self, n):
        o = FakePool.order[self._k] if self._k < len(FakePool.order) else 0
        self._k += 1
        for c in range(n):
            if o % n == c:
                return c
        return 0

    def __enter__(self):
        return self

    def __exit__(self, *a):
        self.terminate()
        return False

    def terminate(self):
        self.terminated = True
        self.pending = []

    def close(self):
        self.closed = True

    def join(self):
        if not (self.closed or self.terminated):
            raise ValueError("Pool is still running")
        while self.pending:
            self.pending.pop(self._choice(len(self.pending)))._run()

    def _run_one(self, res):
        # anything queued earlier may complete first; this one completes now at the latest
        if res in self.pending:
            self.pending.remove(res)
        res._run()

    def _submit(self, thunk, callback, error_callback):
        if self.closed or self.terminated:
            raise ValueError("Pool not running")
        r = _AsyncResult(self, thunk, callback, error_callback)
        self.pending.append(r)
        return r

    def apply_async(self, func, args=(), kwds=None, callback=None, error_callback=None):
        kwds = kwds or {}
        return self._submit(lambda: func(*args, **kwds), callback, error_callback)

    def apply(self, func, args=(), kwds=None):
        return self.apply_async(func, args, kwds).get()

    def map_async(self, f, xs, chunksize=None, callback=None, error_callback=None):
        xs = list(xs)
        return self._submit(lambda: [f(x) for x in xs], callback, error_callback)

    def starmap_async(self, f, xs, chunksize=None, callback=None, error_callback=None):
        xs = list(xs)
        return self._submit(lambda: [f(*x) for x in xs], callback, error_callback)

    def imap(self, f, xs, chunksize=1):
        return _PoolIterator(self, f, list(xs), ordered=True)

    def imap_unordered(self, f, xs, chunksize=1):
        return _PoolIterator(self, f, list(xs), ordered=False)

    def map(self, f, xs, chunksize=None):
        return [f(x) for x in list(xs)]

    def starmap(self, f, xs, chunksize=None):
        return [f(*x) for x in list(xs)]

    def __getattr__(self, name):
        raise StubLimit("Pool.%s not modelled" % name)


class FakeFS:
    """open(name, mode) for modes 'a'/'w': append keeps, 'w' truncates, write appends in order."""

    def __init__(self):
        self.files = {}
        self.opens = 0

    def open(self, name, mode='r', *a, **k):
        if mode not in ('a', 'w') or a or k:
            raise StubLimit("open mode %r not modelled" % (mode,))
        fs = self
        fs.opens += 1
        if mode == 'w' or name not in fs.files:
            fs.files[name] = []

        class F:
            closed = False

            def write(self, s):
                if self.closed:
                    raise ValueError("I/O operation on closed file")
                fs.files[name].append(s)

            def close(self):
                self.closed = True

            def __enter__(self):
                return self

            def __exit__(self, *a):
                self.closed = True
                return False

            def __getattr__(self, n):
                raise StubLimit("file.%s not modelled" % n)
        return F()


class HavocSet:
    """Stand-in for the builtin set/frozenset as seen by the code under test.  Documented contract: an unordered
    collection of distinct elements - membership, size and set algebra are exact, the ITERATION ORDER is arbitrary.
    (In CPython that order follows hash values, i.e. object addresses or PYTHONHASHSEED - ambient process state.)
    The order of every iteration is chosen by the symbolic stream `HavocSet.order` (Lehmer code)."""
    order = []
    _k = 0
    iterated = 0

    def __init__(self, it=()):
        self._items = []
        for x in it:
            self.add(x)

    def add(self, x):
        for y in self._items:
            if y is x or y == x:
                return
        self._items.append(x)

    def discard(self, x):
        self._items = [y for y in self._items if not (y is x or y == x)]

    def remove(self, x):
        if x not in self:
            raise KeyError(x)
        self.discard(x)

    def __contains__(self, x):
        for y in self._items:
            if y is x or y == x:
                return True
        return False

    def __len__(self):
        return len(self._items)

    def __bool__(self):
        return len(self._items) > 0

    def __iter__(self):
        HavocSet.iterated += 1
        pool = list(self._items)
        out = []
        while pool:
            o = HavocSet.order[HavocSet._k % len(HavocSet.order)] if HavocSet.order else 0
            HavocSet._k += 1
            j = 0
            for c in range(len(pool)):
                if o % len(pool) == c:
                    j = c
            out.append(pool.pop(j))
        return iter(out)

    def _new(self, items):
        return type(self)(items)

    def intersection(self, *others):
        return self._new([x for x in self._items if all(x in HavocSet(o) for o in others)])

    def union(self, *others):
        r = self._new(self._items)
        for o in others:
            for x in o:
                r.add(x)
        return r

    def difference(self, *others):
        return self._new([x for x in self._items if not any(x in HavocSet(o) for o in others)])

    __and__ = lambda self, o: self.intersection(o)
    __or__ = lambda self, o: self.union(o)
    __sub__ = lambda self, o: self.difference(o)

    def issubset(self, o):
        return all(x in HavocSet(o) for x in self._items)

    def issuperset(self, o):
        return all(x in self for x in o)

    def isdisjoint(self, o):
        return not any(x in self for x in o)

    def update(self, *others):
        for o in others:
            for x in o:
                self.add(x)

    def intersection_update(self, *others):
        self._items = self.intersection(*others)._items

    def difference_update(self, *others):
        self._items = self.difference(*others)._items

    def symmetric_difference(self, o):
        o = HavocSet(o)
        return self._new([x for x in self._items if x not in o] + [x for x in o._items if x not in self])

    def copy(self):
        return self._new(self._items)

    def clear(self):
        self._items = []

    def pop(self):
        # an ARBITRARY element (the first of an arbitrary iteration order)
        for x in self:
            self.discard(x)
            return x
        raise KeyError("pop from an empty set")

    def __ior__(self, o):
        self.update(o)
        return self

    def __iand__(self, o):
        self.intersection_update(o)
        return self

    def __isub__(self, o):
        self.difference_update(o)
        return self

    __xor__ = lambda self, o: self.symmetric_difference(o)
    __le__ = lambda self, o: self.issubset(o)
    __ge__ = lambda self, o: self.issuperset(o)

    def __eq__(self, o):
        return isinstance(o, HavocSet) and len(o) == len(self) and self.issubset(o)

    __hash__ = None

    def __getattr__(self, n):
        raise StubLimit("set.%s not modelled" % n)


# ---------------------------------------------------------------------------------------------- pandas contract
import numpy as np


class Row:
    """one row of a frame (what iloc[i] returns): (label, value) pairs; labels may repeat after a concat"""

    def __init__(self, pairs):
        self.pairs = list(pairs)

    def keys(self):
        return [k for k, _ in self.pairs]

    def __iter__(self):
        return iter(self.keys())

    def __len__(self):
        return len(self.pairs)

    def __contains__(self, label):
        return any(k == label for k, _ in self.pairs)

    def __getitem__(self, label):
        hits = [v for k, v in self.pairs if k == label]
        if not hits:
            raise KeyError(label)
        return hits[0] if len(hits) == 1 else Row([(label, v) for v in hits])   # pandas: a sub-series for a repeated label

    def get(self, label, default=None):
        return self[label] if label in self else default

    def items(self):
        return list(self.pairs)


class Series:
    """stand-in for pandas.Series as far as building a column goes"""

    def __init__(self, data=None, index=None, name=None, **k):
        if k:
            raise StubLimit("Series(%r) not modelled" % (sorted(k),))
        self.values = data.copy() if isinstance(data, np.ndarray) else list(data)
        if index is not None and len(index) != len(self.values):
            raise ValueError("Length of values (%d) does not match length of index (%d)" % (len(self.values), len(index)))
        self.name = name

    def __len__(self):
        return len(self.values)

    def __getitem__(self, i):
        return self.values[i]

    def __getattr__(self, n):
        raise StubLimit("Series.%s not modelled" % n)


def _concat(objs, axis=0, **k):
    """pandas.concat(..., axis=1) of frames/series over the same default index: the columns side by side, in order;
    NOTHING is overwritten - a label that occurs twice is kept twice"""
    if axis not in (1, "columns") or k or not objs or not isinstance(objs[0], Frame):
        raise StubLimit("concat(axis=%r, %r) not modelled" % (axis, sorted(k)))
    out = objs[0].copy()
    for o in objs[1:]:
        if isinstance(o, Series):
            new = [(o.name, o.values)]
        elif isinstance(o, Frame):
            new = [(c, o.cols[c]) for c in o.cols] + list(o.extra)
        else:
            raise StubLimit("concat of %s not modelled" % type(o).__name__)
        for label, col in new:
            if out.n is not None and len(col) != out.n:
                raise StubLimit("concat of columns of different lengths (index alignment) not modelled")
            col = col.copy() if isinstance(col, np.ndarray) else list(col)
            if label in out.cols:
                out.extra.append((label, col))
            else:
                if out.n is None:
                    out.n = len(col)
                out.cols[label] = col
    return out


NAN = float("nan")


def _infer(col):
    """pandas' dtype inference for a column built from Python objects, as far as VALUES are concerned: a column whose
    elements are all numbers (int/float, no bool, ints within 64 bits) or None - with at least one number and at least
    one None - becomes a float column in which None is stored as NaN.  (Numbers keep their numeric value - 0 becomes
    0.0 - which the harnesses treat as the same value.)  Any other mix (strings, tuples, bools, all-None, huge ints)
    is stored as given (object dtype).  Measured against pandas 2.x in findings/F7_demo.py."""
    has_none = has_num = False
    for v in col:
        if v is None:
            has_none = True
        elif isinstance(v, bool):
            return col
        elif isinstance(v, (int, np.integer, float, np.floating)):
            has_num = True
        else:
            return col
    if not (has_none and has_num):
        return col
    for v in col:                  # (the magnitude only matters in the None-among-numbers case: looked at last)
        if isinstance(v, (int, np.integer)) and not (-2 ** 63 <= v < 2 ** 63):
            return col
    return [NAN if v is None else v for v in col]


class Frame:
    """stand-in for pandas.DataFrame (contract above)"""
    made = []

    def __init__(self, data=None, *a, **k):
        index = k.pop("index", None)            # (only the default positional index is modelled)
        if a or k or not isinstance(data, dict):
            raise StubLimit("DataFrame(%r) not modelled" % (type(data).__name__,))
        self.cols = {}
        self.extra = []          # further columns whose label repeats one in `cols` (only concat creates them)
        self.n = None
        Frame.made.append(self)
        for name, v in data.items():
            self[name] = v
        if index is not None and self.n is not None and len(index) != self.n:
            raise ValueError("Length of values (%d) does not match length of index (%d)" % (self.n, len(index)))

    def __setitem__(self, name, value):
        if any(name == k for k, _ in self.extra):
            raise StubLimit("assignment to a repeated label not modelled")
        if isinstance(value, np.ndarray):
            if value.ndim != 1:
                raise ValueError("column must be 1-dimensional")
            col = value                    # worst case allowed by the contract: no copy
        elif isinstance(value, (list, tuple)):
            col = _infer(list(value))      # pandas copies a list/tuple into the frame, element i for row i (dtype inference below)
        elif value is None or isinstance(value, (int, float, str, bool)):
            if self.n is None:
                raise StubLimit("scalar broadcast into an empty frame")
            col = [value] * self.n         # pandas broadcasts a scalar to every row
        else:
            raise StubLimit("column assignment from %s not modelled" % type(value).__name__)
        if self.n is None:
            self.n = len(col)
        elif len(col) != self.n:
            raise ValueError("Length of values (%d) does not match length of index (%d)" % (len(col), self.n))
        self.cols[name] = col

    def __getitem__(self, name):
        if self.extra and (isinstance(name, list) or any(name == k for k, _ in self.extra)):
            raise StubLimit("selection from a frame with repeated labels not modelled")
        if isinstance(name, list):              # column selection: a NEW frame with exactly those columns, in that order
            out = Frame({})
            for c in name:
                if c not in self.cols:
                    raise KeyError(c)
            out.n = self.n
            for c in name:
                v = self.cols[c]
                out.cols[c] = v.copy() if isinstance(v, np.ndarray) else list(v)
            return out
        if name not in self.cols:
            raise KeyError(name)
        return self.cols[name]

    @property
    def columns(self):
        return list(self.cols) + [k for k, _ in self.extra]

    @property
    def index(self):
        return range(self.n or 0)

    def assign(self, **kwargs):                 # a NEW frame with the columns added / replaced; the receiver is unchanged
        out = self[list(self.cols)]
        for k, v in kwargs.items():
            out[k] = v
        return out

    def update(self, other, **k):
        """pandas.DataFrame.update: overwrite in place with the NON-NA values of `other` (same labels, same rows); NA
        entries of `other` (None / NaN) leave the old value standing"""
        if k or not isinstance(other, Frame) or self.extra or other.extra:
            raise StubLimit("DataFrame.update(%s, %r) not modelled" % (type(other).__name__, sorted(k)))
        for label, new in other.cols.items():
            if label not in self.cols:
                continue
            old = self.cols[label]
            if len(new) != len(old):
                raise StubLimit("update with another index not modelled")
            merged = [old[i] if (new[i] is None or (isinstance(new[i], float) and new[i] != new[i])) else new[i]
                      for i in range(len(old))]
            self.cols[label] = merged

    def copy(self, deep=True):
        saved, self.extra = self.extra, []
        try:
            out = self[list(self.cols)]
        finally:
            self.extra = saved
        out.extra = [(k, v.copy() if isinstance(v, np.ndarray) else list(v)) for k, v in saved]
        return out

    def __contains__(self, name):
        return name in self.cols

    def __len__(self):
        return self.n or 0

    def drop(self, columns=None, inplace=False, **k):
        if k or not inplace or not isinstance(columns, list):
            raise StubLimit("drop(%r, inplace=%r) not modelled" % (columns, inplace))
        for c in columns:
            if c not in self.cols:
                raise KeyError(c)
        for c in columns:                       # drop removes EVERY column carrying the label
            del self.cols[c]
            self.extra = [(k, v) for k, v in self.extra if k != c]

    @property
    def iloc(self):
        frame = self

        class _I:
            def __getitem__(self, i):
                return Row([(c, v[i]) for c, v in frame.cols.items()] + [(c, v[i]) for c, v in frame.extra])
        return _I()

    def __getattr__(self, n):
        raise StubLimit("DataFrame.%s not modelled" % n)


class _FakePandas:
    DataFrame = Frame
    Series = Series
    concat = staticmethod(_concat)

    @staticmethod
    def to_numeric(arg, **k):
        # a pure function of a concrete numpy array: the REAL pandas answers (no frame involved)
        if not isinstance(arg, np.ndarray):
            raise StubLimit("to_numeric(%s) not modelled" % type(arg).__name__)
        import pandas as _real_pandas
        return _real_pandas.to_numeric(arg, **k)

    def __getattr__(self, n):
        raise StubLimit("pandas.%s not modelled" % n)


import functools as _functools


def _pymemo(f):
    cache = {}

    def memoised(*args, **kwargs):
        key = (args, tuple(sorted(kwargs.items())))
        if key not in cache:
            cache[key] = f(*args, **kwargs)
        return cache[key]
    memoised.__wrapped__ = f
    return memoised


class patched_pandas:
    """ECAgent.Environments.pandas replaced by the contract stand-in for the duration of a path"""

    def __enter__(self):
        import ECAgent.Environments as Env
        self.Env = Env
        self.saved = Env.pandas
        Env.pandas = _FakePandas()
        Frame.made = []
        # C-level memoisation (functools.lru_cache / functools.cache) is invisible to the symbolic run (measured: a
        # cached table shared by two worlds went unnoticed).  Module-level memoised helpers are therefore replaced by
        # an equivalent Python-level memo for the duration of the path, so that the sharing they introduce is seen.
        self.memo = []
        for name, obj in list(vars(Env).items()):
            if isinstance(obj, _functools._lru_cache_wrapper):
                self.memo.append((name, obj))
                setattr(Env, name, _pymemo(obj.__wrapped__))
        return self

    def __exit__(self, *a):
        self.Env.pandas = self.saved
        for name, obj in self.memo:
            setattr(self.Env, name, obj)
        return False


