"""Self-test (not a manifest command): apply each catalogued change to a scratch worktree of /repo and expect the
check of the property it breaks to report VIOLATION.

usage: ./check selftest [--tests] [--tier quick|thorough] [--shard i/n] [name-substring ...]
Catalogue: /verif/mutants/<PROP>-<name>.patch (own mutants) and /verif/seeded/<id>/patch.diff (+ meta.json).
Scratch worktrees live under /tmp and are removed as soon as the check has run.
"""
import glob
import json
import os
import shutil
import subprocess
import sys
import tempfile
import time

ROOT = os.path.dirname(os.path.dirname(os.path.abspath(__file__)))


def catalogue():
    out = []
    for p in sorted(glob.glob(os.path.join(ROOT, "mutants", "*.patch"))):
        base = os.path.basename(p)[:-6]
        out.append({"name": base, "props": [base.split("-")[0]], "patch": p})
    for d in sorted(glob.glob(os.path.join(ROOT, "seeded", "*"))):
        pf = os.path.join(d, "patch.diff")
        mf = os.path.join(d, "meta.json")
        if os.path.exists(pf) and os.path.exists(mf):
            meta = json.load(open(mf))
            if meta.get("status") == "obsolete":
                continue
            props = meta.get("property")
            props = props if isinstance(props, list) else [props]
            out.append({"name": "seeded/" + os.path.basename(d), "props": props, "patch": pf})
    return out


def main(argv):
    tests = "--tests" in argv
    tier = "quick"
    if "--tier" in argv:
        tier = argv[argv.index("--tier") + 1]
    shard = None
    if "--shard" in argv:                      # --shard i/n : every n-th catalogue entry, starting at i (for parallel runs)
        i, n = argv[argv.index("--shard") + 1].split("/")
        shard = (int(i), int(n))
    rounds = None
    if "--rounds" in argv:                     # --rounds ABCDEF+own : seeds whose id ends in one of the letters, "+own" = own mutants
        rounds = argv[argv.index("--rounds") + 1]
    sel = [a for a in argv if not a.startswith("--") and a not in ("quick", "thorough") and "/" not in a and a != rounds]
    rows = []
    bad = 0
    for k, item in enumerate(catalogue()):
        if shard and k % shard[1] != shard[0]:
            continue
        if sel and not any(s in item["name"] for s in sel):
            continue
        if rounds is not None:
            own = not item["name"].startswith("seeded/")
            if own and "+own" not in rounds:
                continue
            if not own and item["name"][-1] not in rounds.replace("+own", ""):
                continue
        tmp = tempfile.mkdtemp(prefix="ecagent-selftest-", dir="/tmp")
        wt = os.path.join(tmp, "r")
        try:
            subprocess.run(["git", "-C", "/repo", "worktree", "add", "--detach", "-f", wt, "HEAD"],
                           check=True, capture_output=True)
            # bring uncommitted changes of /repo's working tree along (checks must see the current tree)
            d = subprocess.run(["git", "-C", "/repo", "diff", "HEAD"], capture_output=True, text=True).stdout
            if d.strip():
                subprocess.run(["git", "-C", wt, "apply"], input=d, text=True, check=True)
            ap = subprocess.run(["git", "-C", wt, "apply", "--whitespace=nowarn", item["patch"]],
                                capture_output=True, text=True)
            if ap.returncode != 0:
                rows.append((item["name"], "PATCH-DOES-NOT-APPLY", ap.stderr.strip()[:200]))
                print("%-40s %-40s %s" % rows[-1], flush=True)
                bad += 1
                continue
            tres = ""
            if tests:
                t = subprocess.run(["/venv/bin/python", "-m", "pytest", "-q", "-x", "-p", "no:cacheprovider", "tests"],
                                   cwd=wt, capture_output=True, text=True, env={**os.environ, "PYTHONPATH": wt})
                tres = " tests:" + (t.stdout.strip().splitlines() or ["?"])[-1]
            for pid in item["props"]:
                t0 = time.time()
                r = subprocess.run([os.path.join(ROOT, "check"), pid, tier], capture_output=True, text=True,
                                   env={**os.environ, "VERIF_REPO": wt})
                viol = [l for l in r.stdout.splitlines() if l.startswith("VIOLATION")]
                status = "CAUGHT" if (r.returncode == 1 and viol) else "MISSED(exit=%d)" % r.returncode
                if status != "CAUGHT":
                    bad += 1
                first = [l for l in r.stdout.splitlines() if l.startswith("counterexample")][:1]
                rows.append((item["name"], pid + " " + status + tres,
                             "%.0fs %s" % (time.time() - t0, (first or [""])[0][:160])))
                print("%-40s %-40s %s" % rows[-1], flush=True)
        finally:
            subprocess.run(["git", "-C", "/repo", "worktree", "remove", "--force", wt], capture_output=True)
            shutil.rmtree(tmp, ignore_errors=True)
            subprocess.run(["git", "-C", "/repo", "worktree", "prune"], capture_output=True)
    print("selftest: %d entries, %d not caught" % (len(rows), bad))
    return 1 if bad else 0


if __name__ == "__main__":
    sys.exit(main(sys.argv[1:]))
