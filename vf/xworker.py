"""Worker process for engine X: runs CrossHair on one harness function for a list of partitions.

stdin : JSON {module, fn, parts:[{part:{...}, labels:[...]}], timeout, per_path}
stdout: JSON {results:[{part, check:{state,message,args,paths,confirmed_paths,queries,unknown,solver_s,wall_s},
                        reach:{label:{...same...}}}]}
"""
import ast
import collections
import importlib
import json
import sys
import time
import traceback


def parse_call(message, fn_name):
    """Extract the concrete arguments from a CrossHair message '... when calling f(1, -2, x=True) ...'."""
    key = "when calling " + fn_name + "("
    i = message.find(key)
    if i < 0:
        return None
    s = message[i + len("when calling "):]
    # find the matching close paren
    depth = 0
    end = None
    instr = None
    for j, ch in enumerate(s):
        if instr:
            if ch == instr and s[j - 1] != "\\":
                instr = None
            continue
        if ch in "'\"":
            instr = ch
        elif ch in "([{":
            depth += 1
        elif ch in ")]}":
            depth -= 1
            if depth == 0:
                end = j
                break
    if end is None:
        return None
    try:
        call = ast.parse(s[:end + 1], mode="eval").body
        args = [ast.literal_eval(a) for a in call.args]
        kwargs = {k.arg: ast.literal_eval(k.value) for k in call.keywords}
        return {"args": args, "kwargs": kwargs}
    except Exception:
        return None


def main():
    spec = json.load(sys.stdin)
    import z3
    from crosshair.core_and_libs import analyze_function, run_checkables
    from crosshair.options import AnalysisOptionSet, AnalysisKind

    q = {"n": 0, "t": 0.0, "unknown": 0}
    orig = z3.Solver.check

    def check(self, *a):
        t = time.perf_counter()
        r = orig(self, *a)
        q["t"] += time.perf_counter() - t
        q["n"] += 1
        if str(r) == "unknown":
            q["unknown"] += 1
        return r
    z3.Solver.check = check

    import crosshair.core as xcore
    conf = {"n": 0}
    orig_ct = xcore.analyze_calltree

    def calltree(*a, **k):
        r = orig_ct(*a, **k)
        conf["n"] += getattr(r, "num_confirmed_paths", 0)
        return r
    xcore.analyze_calltree = calltree

    # Engine-level stub: formatting a symbolic number inside an f-string yields an opaque placeholder instead of
    # realising the number (CrossHair would fork on every concrete value; error messages are not the subject of any
    # property).  Only f-strings of the code under test are affected.
    import crosshair.opcode_intercept as xop
    from crosshair.util import CrossHairValue
    from crosshair.libimpl.builtinslib import AnySymbolicStr
    from crosshair.tracers import NoTracing

    def _opaque(orig):
        def fmt(self, *a):
            with NoTracing():
                v = self.value
                sym = isinstance(v, CrossHairValue) and not isinstance(v, AnySymbolicStr)
            if sym:
                self.formatted = "<symbolic>"
                return ""
            return orig(self, *a)
        return fmt
    for _n in ("__str__", "__format__", "__repr__"):
        setattr(xop.FormatStashingValue, _n, _opaque(getattr(xop.FormatStashingValue, _n)))

    import vf.hx as hx
    mod = importlib.import_module(spec["module"])
    fn = getattr(mod, spec["fn"])

    def one(mode, timeout):
        for k in q:
            q[k] = 0
        conf["n"] = 0
        hx.MODE = mode
        st = collections.Counter()
        opts = AnalysisOptionSet(per_condition_timeout=timeout, per_path_timeout=spec.get("per_path", 20),
                                 report_all=True, analysis_kind=[AnalysisKind.PEP316], stats=st,
                                 max_uninteresting_iterations=10 ** 9)
        t0 = time.time()
        try:
            msgs = run_checkables(analyze_function(fn, opts))
        except Exception as e:
            return {"state": "TOOL_ERROR", "message": "".join(traceback.format_exception_only(type(e), e)),
                    "args": None, "paths": 0, "confirmed_paths": 0, "queries": q["n"], "unknown": q["unknown"],
                    "solver_s": round(q["t"], 3), "wall_s": round(time.time() - t0, 3)}
        hx.MODE = "check"
        if not msgs:
            state, message = "NO_MESSAGE", ""
        else:
            # most severe first: a refutation wins over everything else
            order = ["POST_FAIL", "EXEC_ERR", "POST_ERR", "PRE_UNSAT", "CANNOT_CONFIRM", "CONFIRMED"]
            msgs = sorted(msgs, key=lambda m: order.index(m.state.name) if m.state.name in order else -1)
            state, message = msgs[0].state.name, msgs[0].message
        return {"state": state, "message": message[:2000], "args": parse_call(message, spec["fn"]),
                "paths": int(st.get("num_paths", 0)), "confirmed_paths": conf["n"],
                "queries": q["n"], "unknown": q["unknown"], "solver_s": round(q["t"], 3),
                "wall_s": round(time.time() - t0, 3)}

    out = []
    for item in spec["parts"]:
        part = item["part"]
        hx.P = part
        res = {"part": part, "check": one("check", spec["timeout"]), "reach": {}}
        for label in item["labels"]:
            res["reach"][label] = one(("reach", label), min(spec["timeout"], 60))
        out.append(res)
    json.dump({"results": out}, sys.stdout)


if __name__ == "__main__":
    main()
