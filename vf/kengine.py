"""Engine K: a small symbolic interpreter of Python ASTs (CBMC style) - state merging instead of forking, bounded loop
unrolling with unwinding assertions, guarded lists, guarded outcomes (return / raise).  Applied to functions read from
/repo at run time (inspect.getsource on the live module), so the encoding is regenerated on every run.

Values: concrete Python objects | z3 terms (Int, Bool, Real, Float64) | tuples of values | GList (ordered sequence of
(guard, value)) | real objects of the repository used as the heap (their attributes may hold z3 terms).
Anything outside the supported subset raises Untranslatable: the obligation is then INCONCLUSIVE, never passed/failed.
"""
import ast
import builtins
import hashlib
import inspect
import operator
import textwrap
import time
import z3

F64 = z3.Float64()
RNE = z3.RNE()


class Untranslatable(Exception):
    pass


def is_sym(v):
    return isinstance(v, z3.ExprRef)


def is_fp(v):
    return isinstance(v, z3.FPRef)


def any_sym(v):
    if is_sym(v) or isinstance(v, GList):
        return True
    if isinstance(v, (tuple, list)):
        return any(any_sym(x) for x in v)
    return False


def fpval(v):
    if is_fp(v):
        return v
    if isinstance(v, bool):
        raise Untranslatable("bool in float arithmetic")
    if isinstance(v, int):
        if float(v) != v:
            raise Untranslatable("int %r not exactly representable as double" % v)
        return z3.FPVal(float(v), F64)
    if isinstance(v, float):
        return z3.FPVal(v, F64)
    if is_sym(v) and z3.is_int(v):
        raise Untranslatable("symbolic int mixed with float")
    raise Untranslatable("fpval %r" % (v,))


def lift(v):
    if is_sym(v):
        return v
    if isinstance(v, bool):
        return z3.BoolVal(v)
    if isinstance(v, int):
        return z3.IntVal(v)
    if isinstance(v, float):
        return z3.FPVal(v, F64)
    raise Untranslatable("lift %r" % (v,))


def to_bool(v):
    if is_sym(v):
        if z3.is_bool(v):
            return v
        if is_fp(v):
            return z3.Not(z3.fpEQ(v, z3.FPVal(0.0, F64)))
        if z3.is_int(v) or z3.is_real(v):
            return v != 0
        raise Untranslatable("truthiness of %r" % v)
    return z3.BoolVal(bool(v))


def AND(*xs):
    xs = [x for x in xs if not (x is True or (is_sym(x) and z3.is_true(x)))]
    if not xs:
        return z3.BoolVal(True)
    return z3.simplify(z3.And(*[x if is_sym(x) else z3.BoolVal(bool(x)) for x in xs]))


def ite(c, a, b):
    """merge two values under condition c"""
    if a is b:
        return a
    if isinstance(a, tuple) and isinstance(b, tuple) and len(a) == len(b):
        return tuple(ite(c, x, y) for x, y in zip(a, b))
    if isinstance(a, GList) and isinstance(b, GList):
        return a.merge(c, b)
    if not is_sym(a) and not is_sym(b):
        try:
            if type(a) == type(b) and a == b:
                return a
        except Exception:
            pass
    if is_fp(a) or is_fp(b):
        return z3.If(c, fpval(a), fpval(b))
    try:
        la, lb = lift(a), lift(b)
        if la.sort() != lb.sort():
            raise Untranslatable("merge of different sorts %s / %s" % (la.sort(), lb.sort()))
    except Untranslatable:
        raise Untranslatable("cannot merge %r / %r" % (a, b))
    return z3.If(c, la, lb)


class GList:
    """guarded list: program-ordered entries (guard, value); the list denoted is the sub-sequence whose guards hold"""

    def __init__(self, entries=None):
        self.entries = list(entries or [])

    def append(self, guard, value):
        self.entries.append((guard, value))

    def merge(self, c, other):
        n = 0
        while n < len(self.entries) and n < len(other.entries) and self.entries[n] is other.entries[n]:
            n += 1
        out = list(self.entries[:n])
        out += [(AND(c, g), v) for g, v in self.entries[n:]]
        out += [(AND(z3.Not(c), g), v) for g, v in other.entries[n:]]
        return GList(out)


class Frame:
    def __init__(self, env):
        self.env = env
        self.outcomes = []                    # (guard, kind, payload) - guards relative to self.base
        self.live = z3.BoolVal(True)          # still executing in this frame (not returned/raised)
        self.base = z3.BoolVal(True)          # guard of the call site
        self.globals = {}
        self.closure = {}
        self.self_name = None


class Closure:
    def __init__(self, fdef, frame):
        self.fdef, self.frame = fdef, frame

    def invoke(self, interp, args, kwargs, guard):
        names = [a.arg for a in self.fdef.args.args]
        env = dict(zip(names, args))
        env.update(kwargs)
        f = Frame(env)
        f.globals = self.frame.globals
        f.closure = dict(self.frame.closure)
        f.closure.update(self.frame.env)
        f.base = guard
        interp.exec_block(self.fdef.body, f, z3.BoolVal(True))
        f.outcomes.append((f.live, "return", None))
        return [(AND(guard, g), k, p) for g, k, p in f.outcomes]


_CMP = {ast.Lt: operator.lt, ast.LtE: operator.le, ast.Gt: operator.gt, ast.GtE: operator.ge, ast.Eq: operator.eq,
        ast.NotEq: operator.ne, ast.Is: operator.is_, ast.IsNot: operator.is_not,
        ast.In: lambda x, y: x in y, ast.NotIn: lambda x, y: x not in y}
_BIN = {ast.Add: operator.add, ast.Sub: operator.sub, ast.Mult: operator.mul, ast.Mod: operator.mod,
        ast.FloorDiv: operator.floordiv, ast.Div: operator.truediv, ast.Pow: operator.pow}


class Interp:
    def __init__(self, unroll=5, native=()):
        self.unroll = unroll
        self.unwinding = []       # z3 Bool per loop: "needs more than `unroll` iterations" (must be unsat under pre)
        self.encoded = {}         # qualified name -> {where, sha256}
        self.native = tuple(native)   # callables executed natively even with symbolic arguments (store-only constructors)

    # ---------------------------------------------------------------- calls
    def _source(self, pyfn):
        src = textwrap.dedent(inspect.getsource(pyfn))
        try:
            where = "%s:%d" % (inspect.getsourcefile(pyfn), inspect.getsourcelines(pyfn)[1])
        except Exception:
            where = "?"
        self.encoded[pyfn.__qualname__] = {"name": pyfn.__qualname__, "where": where,
                                           "sha256": hashlib.sha256(src.encode()).hexdigest()[:16]}
        return ast.parse(src).body[0]

    def call(self, fn, args, kwargs=None, guard=None):
        kwargs = kwargs or {}
        guard = z3.BoolVal(True) if guard is None else guard
        self_obj = getattr(fn, "__self__", None)
        pyfn = getattr(fn, "__func__", fn)
        pyfn = getattr(pyfn, "__wrapped__", pyfn)
        fdef = self._source(pyfn)
        sig = inspect.signature(pyfn)
        bound = sig.bind(*(([self_obj] if self_obj is not None else []) + list(args)), **kwargs)
        bound.apply_defaults()
        frame = Frame(dict(bound.arguments))
        frame.self_name = next(iter(sig.parameters), None)
        frame.globals = pyfn.__globals__
        if pyfn.__closure__:
            frame.closure = dict(zip(pyfn.__code__.co_freevars, [c.cell_contents for c in pyfn.__closure__]))
        frame.base = guard
        self.exec_block(fdef.body, frame, z3.BoolVal(True))
        frame.outcomes.append((frame.live, "return", None))       # falling off the end returns None
        outs = [(AND(guard, g), k, p) for g, k, p in frame.outcomes]
        return [o for o in outs if not z3.is_false(o[0])]

    def _minmax(self, fn, vals):
        acc = vals[0]
        for v in vals[1:]:
            if not any_sym(acc) and not any_sym(v):
                acc = fn(acc, v)
            elif is_fp(acc) or is_fp(v) or isinstance(acc, float) or isinstance(v, float):
                a, b = fpval(acc), fpval(v)
                c = z3.fpGT(b, a) if fn is max else z3.fpLT(b, a)       # Python: max(a,b) = b if b > a else a
                acc = z3.If(c, b, a)
            else:
                c = (lift(v) > lift(acc)) if fn is max else (lift(v) < lift(acc))
                acc = z3.If(c, lift(v), lift(acc))
        return acc

    def call_value(self, fn, args, kwargs, frame, guard):
        """call inside an expression: returns one merged value; raises of the callee become outcomes of this frame"""
        if isinstance(fn, Closure):
            outs = fn.invoke(self, args, kwargs, AND(frame.base, guard, frame.live))
        elif fn in (max, min):
            vals = list(args[0]) if len(args) == 1 and isinstance(args[0], (tuple, list)) else list(args)
            return self._minmax(fn, vals)
        elif fn is abs:
            v = args[0]
            if not is_sym(v):
                return abs(v)
            if is_fp(v):
                return z3.fpAbs(v)
            return z3.If(v < 0, -v, v)
        elif fn is int:
            v = args[0]
            if not is_sym(v):
                return int(v)
            if z3.is_int(v):
                return v
            if z3.is_real(v):                       # truncation toward zero
                return z3.If(v >= 0, z3.ToInt(v), -z3.ToInt(-v))
            raise Untranslatable("int() of %r" % v)
        elif fn is isinstance:
            if is_sym(args[0]):
                t = args[1]
                ts = t if isinstance(t, tuple) else (t,)
                if z3.is_int(args[0]):
                    return int in ts
                if z3.is_real(args[0]) or is_fp(args[0]):
                    return float in ts
                if z3.is_bool(args[0]):
                    return bool in ts or int in ts
                return False
            return isinstance(*args)
        elif fn is type:
            if is_sym(args[0]):
                return int if z3.is_int(args[0]) else (bool if z3.is_bool(args[0]) else float)
            return type(args[0])
        elif fn is range:
            return ("range",) + tuple(args)
        elif fn is len:
            if isinstance(args[0], GList):
                raise Untranslatable("len of guarded list")
            if hasattr(args[0], "klen"):
                return args[0].klen()
            return len(args[0])
        elif fn is super and not args:
            # zero-argument super(): the defining class is in the function's __class__ cell
            return super(frame.closure['__class__'], frame.env[frame.self_name])
        elif getattr(fn, "__func__", fn) in self.native:
            # executed natively even under a symbolic guard (store-only constructors, callees whose effects the query
            # set does not depend on): their effects are NOT guarded
            return fn(*args, **kwargs)
        elif not any_sym(list(args)) and not any_sym(list(kwargs.values())) and not self._touches_symbolic_heap(fn):
            return fn(*args, **kwargs)                # fully concrete: run natively
        elif inspect.isfunction(fn) or inspect.ismethod(fn):
            outs = self.call(fn, args, kwargs, AND(frame.base, guard, frame.live))
        else:
            raise Untranslatable("call of %r with symbolic arguments" % (fn,))
        val = None
        first = True
        outs = [o for o in outs if not z3.is_false(o[0])]
        for g, kind, payload in outs:
            if kind == "raise":
                frame.outcomes.append((g, "raise", payload))
                frame.live = AND(frame.live, z3.Not(g))
            elif first:
                val, first = payload, False
            else:
                val = ite(g, payload, val)
        return val

    def _touches_symbolic_heap(self, fn):
        obj = getattr(fn, "__self__", None)
        if obj is None or inspect.isclass(obj) or inspect.ismodule(obj):
            return False
        if getattr(obj, "_k_symbolic", False):
            return True
        d = getattr(obj, "__dict__", None)
        names = list(d) if d is not None else []
        for klass in type(obj).__mro__:
            names += list(getattr(klass, "__slots__", ()))
        for n in names:
            try:
                if any_sym(getattr(obj, n)):
                    return True
            except AttributeError:
                pass
        return False

    # ---------------------------------------------------------------- statements
    def exec_block(self, stmts, frame, guard):
        for s in stmts:
            self.exec_stmt(s, frame, guard)

    def assign(self, target, value, frame, guard):
        g = AND(guard, frame.live)
        if isinstance(target, ast.Name):
            if z3.is_true(g) or target.id not in frame.env:
                frame.env[target.id] = value
            else:
                frame.env[target.id] = ite(g, value, frame.env[target.id])
        elif isinstance(target, (ast.Tuple, ast.List)):
            if isinstance(value, tuple) and len(value) == len(target.elts):
                for t, v in zip(target.elts, value):
                    self.assign(t, v, frame, guard)
            else:
                raise Untranslatable("unpack %r" % (value,))
        elif isinstance(target, ast.Attribute):
            obj = self.eval(target.value, frame, guard)
            ge = AND(frame.base, g)
            setattr(obj, target.attr, value if z3.is_true(ge) else ite(ge, value, getattr(obj, target.attr)))
        else:
            raise Untranslatable("assignment target " + type(target).__name__)

    def exec_stmt(self, s, frame, guard):
        if isinstance(s, ast.Expr):
            if isinstance(s.value, ast.Constant):
                return
            if isinstance(s.value, ast.Call) and isinstance(s.value.func, ast.Attribute) and s.value.func.attr == "append":
                lst = self.eval(s.value.func.value, frame, guard)
                if isinstance(lst, GList):
                    val = self.eval(s.value.args[0], frame, guard)
                    lst.append(AND(frame.base, guard, frame.live), val)
                    return
            self.eval(s.value, frame, guard)
        elif isinstance(s, ast.Assign):
            v = self.eval(s.value, frame, guard)
            for t in s.targets:
                self.assign(t, v, frame, guard)
        elif isinstance(s, ast.AugAssign):
            cur = self.eval(_load(s.target), frame, guard)
            v = self.binop(s.op, cur, self.eval(s.value, frame, guard), frame, guard)
            self.assign(s.target, v, frame, guard)
        elif isinstance(s, ast.If):
            c = self.eval(s.test, frame, guard)
            if not is_sym(c):
                self.exec_block(s.body if c else s.orelse, frame, guard)
                return
            c = to_bool(c)
            env0 = dict(frame.env)
            lists0 = {k: v for k, v in env0.items() if isinstance(v, GList)}
            live0 = frame.live

            def fresh():
                e = dict(env0)
                e.update({k: GList(v.entries) for k, v in lists0.items()})
                return e
            frame.env = fresh()
            self.exec_block(s.body, frame, AND(guard, c))
            env_t, live_t = frame.env, frame.live
            frame.env = fresh()
            frame.live = live0
            self.exec_block(s.orelse, frame, AND(guard, z3.Not(c)))
            env_f, live_f = frame.env, frame.live
            merged = {}
            for k in list(env_t) + [k for k in env_f if k not in env_t]:
                if k in env_t and k in env_f:
                    a, b = env_t[k], env_f[k]
                    if isinstance(a, GList) and isinstance(b, GList):
                        n = len(lists0[k].entries) if k in lists0 else 0
                        merged[k] = GList(a.entries[:n] + a.entries[n:] + b.entries[n:])   # guards already carry c / not c
                    else:
                        merged[k] = ite(c, a, b)
                else:
                    merged[k] = env_t.get(k, env_f.get(k))
            frame.env = merged
            frame.live = z3.simplify(z3.If(c, live_t, live_f))
        elif isinstance(s, ast.For):
            it = self.eval(s.iter, frame, guard)
            if isinstance(it, tuple) and it and it[0] == "range":
                lo, hi = (0, it[1]) if len(it) == 2 else (it[1], it[2])
                if len(it) == 4:
                    raise Untranslatable("range with step")
                if not is_sym(lo) and not is_sym(hi):
                    for i in range(lo, hi):
                        self.assign(s.target, i, frame, guard)
                        self.exec_block(s.body, frame, guard)
                    return
                for i in range(self.unroll):
                    gi = AND(guard, lift(lo) + i < lift(hi))
                    frame.env[s.target.id] = z3.simplify(lift(lo) + i)
                    self.exec_block(s.body, frame, gi)
                self.unwinding.append(AND(frame.base, guard, frame.live, lift(lo) + self.unroll < lift(hi)))
            elif isinstance(it, GList):
                raise Untranslatable("iteration over a guarded list")
            else:
                for x in it:
                    self.assign(s.target, x, frame, guard)
                    self.exec_block(s.body, frame, guard)
        elif isinstance(s, ast.Return):
            v = self.eval(s.value, frame, guard) if s.value is not None else None
            frame.outcomes.append((AND(guard, frame.live), "return", v))
            frame.live = AND(frame.live, z3.Not(guard))
        elif isinstance(s, ast.Raise):
            exc = s.exc
            if isinstance(exc, ast.Call):
                name = exc.func.id if isinstance(exc.func, ast.Name) else exc.func.attr
            elif isinstance(exc, ast.Name):
                name = exc.id
            else:
                raise Untranslatable("raise form")
            frame.outcomes.append((AND(guard, frame.live), "raise", name))
            frame.live = AND(frame.live, z3.Not(guard))
        elif isinstance(s, ast.FunctionDef):
            frame.env[s.name] = Closure(s, frame)
        elif isinstance(s, ast.Pass):
            pass
        else:
            raise Untranslatable("statement " + type(s).__name__)

    # ---------------------------------------------------------------- expressions
    def binop(self, op, a, b, frame, guard):
        if not is_sym(a) and not is_sym(b):
            return _BIN[type(op)](a, b)
        if is_fp(a) or is_fp(b) or isinstance(a, float) or isinstance(b, float):
            a, b = fpval(a), fpval(b)
            if isinstance(op, ast.Add):
                return z3.fpAdd(RNE, a, b)
            if isinstance(op, ast.Sub):
                return z3.fpSub(RNE, a, b)
            if isinstance(op, ast.Mult):
                return z3.fpMul(RNE, a, b)
            raise Untranslatable("float operator %s (Python's float %% / // have no encoding here)" % type(op).__name__)
        a, b = lift(a), lift(b)
        if isinstance(op, ast.Add):
            return a + b
        if isinstance(op, ast.Sub):
            return a - b
        if isinstance(op, ast.Mult):
            return a * b
        if isinstance(op, (ast.Mod, ast.FloorDiv)):
            if z3.is_real(a) or z3.is_real(b):
                raise Untranslatable("real %")
            g = AND(guard, frame.live, b == 0)
            if not z3.is_false(g):
                frame.outcomes.append((g, "raise", "ZeroDivisionError"))
                frame.live = AND(frame.live, z3.Not(g))
            # z3: a = b*(a div b) + (a mod b), 0 <= a mod b < |b|.  Python: floor division, result has the sign of b
            m = a % b
            pm = z3.If(z3.And(b < 0, m != 0), m + b, m)
            if isinstance(op, ast.Mod):
                return pm
            return (a - pm) / b          # exact: a - (a mod b) is a multiple of b
        raise Untranslatable("operator " + type(op).__name__)

    def compare(self, op, a, b):
        if isinstance(a, tuple) and isinstance(b, tuple) and isinstance(op, (ast.Eq, ast.NotEq)):
            if len(a) != len(b):
                return isinstance(op, ast.NotEq)
            eq = z3.And([to_bool(self.compare(ast.Eq(), x, y)) for x, y in zip(a, b)])
            return eq if isinstance(op, ast.Eq) else z3.Not(eq)
        if not is_sym(a) and not is_sym(b):
            return _CMP[type(op)](a, b)
        if isinstance(op, (ast.Eq, ast.NotEq, ast.Is, ast.IsNot)) and \
                (isinstance(a, type) or isinstance(b, type) or a is None or b is None):
            return isinstance(op, (ast.NotEq, ast.IsNot))
        if is_fp(a) or is_fp(b) or isinstance(a, float) or isinstance(b, float):
            a, b = fpval(a), fpval(b)
            return {ast.Lt: z3.fpLT, ast.LtE: z3.fpLEQ, ast.Gt: z3.fpGT, ast.GtE: z3.fpGEQ, ast.Eq: z3.fpEQ,
                    ast.NotEq: lambda x, y: z3.Not(z3.fpEQ(x, y))}[type(op)](a, b)
        a, b = lift(a), lift(b)
        if isinstance(op, ast.Lt):
            return a < b
        if isinstance(op, ast.LtE):
            return a <= b
        if isinstance(op, ast.Gt):
            return a > b
        if isinstance(op, ast.GtE):
            return a >= b
        if isinstance(op, ast.Eq):
            return a == b
        if isinstance(op, ast.NotEq):
            return a != b
        raise Untranslatable("comparison " + type(op).__name__)

    def eval(self, e, frame, guard):
        if isinstance(e, ast.Constant):
            return e.value
        if isinstance(e, ast.Name):
            if e.id in frame.env:
                return frame.env[e.id]
            if e.id in frame.closure:
                return frame.closure[e.id]
            if e.id in frame.globals:
                return frame.globals[e.id]
            return getattr(builtins, e.id)
        if isinstance(e, ast.Attribute):
            return getattr(self.eval(e.value, frame, guard), e.attr)
        if isinstance(e, ast.Tuple):
            return tuple(self.eval(x, frame, guard) for x in e.elts)
        if isinstance(e, ast.List):
            return GList([(z3.BoolVal(True), self.eval(x, frame, guard)) for x in e.elts])
        if isinstance(e, ast.Subscript):
            base = self.eval(e.value, frame, guard)
            idx = self.eval(e.slice, frame, guard)
            if hasattr(base, "ksubscript"):
                return base.ksubscript(idx, self, frame, guard)
            if is_sym(idx):
                raise Untranslatable("symbolic subscript of %r" % (type(base).__name__,))
            return base[idx]
        if isinstance(e, ast.BinOp):
            return self.binop(e.op, self.eval(e.left, frame, guard), self.eval(e.right, frame, guard), frame, guard)
        if isinstance(e, ast.UnaryOp):
            v = self.eval(e.operand, frame, guard)
            if isinstance(e.op, ast.Not):
                return (not v) if not is_sym(v) else z3.Not(to_bool(v))
            if isinstance(e.op, ast.USub):
                return z3.fpNeg(v) if is_fp(v) else -v
            raise Untranslatable("unary " + type(e.op).__name__)
        if isinstance(e, ast.BoolOp):
            # short-circuit evaluation: later operands are evaluated under the guard that the earlier ones did not decide
            vals = []
            g = guard
            result_concrete = None
            for sub in e.values:
                v = self.eval(sub, frame, g)
                vals.append(v)
                if not is_sym(v):
                    if isinstance(e.op, ast.And) and not v:
                        result_concrete = v
                        break
                    if isinstance(e.op, ast.Or) and v:
                        result_concrete = v
                        break
                else:
                    g = AND(g, to_bool(v) if isinstance(e.op, ast.And) else z3.Not(to_bool(v)))
            syms = [v for v in vals if is_sym(v)]
            if not syms:
                return result_concrete if result_concrete is not None else vals[-1]
            bs = [to_bool(v) for v in vals]
            return z3.And(bs) if isinstance(e.op, ast.And) else z3.Or(bs)
        if isinstance(e, ast.Compare):
            left = self.eval(e.left, frame, guard)
            parts = []
            for op, comp in zip(e.ops, e.comparators):
                right = self.eval(comp, frame, guard)
                parts.append(self.compare(op, left, right))
                left = right
            if not any(is_sym(p) for p in parts):
                return all(parts)
            return z3.And([to_bool(p) for p in parts])
        if isinstance(e, ast.IfExp):
            c = self.eval(e.test, frame, guard)
            if not is_sym(c):
                return self.eval(e.body if c else e.orelse, frame, guard)
            cb = to_bool(c)
            return ite(cb, self.eval(e.body, frame, AND(guard, cb)), self.eval(e.orelse, frame, AND(guard, z3.Not(cb))))
        if isinstance(e, ast.Call):
            fn = self.eval(e.func, frame, guard)
            args = [self.eval(a, frame, guard) for a in e.args]
            kwargs = {k.arg: self.eval(k.value, frame, guard) for k in e.keywords}
            return self.call_value(fn, args, kwargs, frame, guard)
        if isinstance(e, ast.JoinedStr):
            return "<fstring>"
        if isinstance(e, ast.ListComp) and len(e.generators) == 1 and not e.generators[0].ifs is None:
            gen = e.generators[0]
            it = self.eval(gen.iter, frame, guard)
            if isinstance(it, GList) or (isinstance(it, tuple) and it and it[0] == "range"):
                raise Untranslatable("comprehension over symbolic iterable")
            out = GList()
            for x in it:
                self.assign(gen.target, x, frame, guard)
                cond = z3.BoolVal(True)
                for c in gen.ifs:
                    cv = self.eval(c, frame, guard)
                    cond = AND(cond, to_bool(cv))
                out.append(AND(frame.base, guard, frame.live, cond), self.eval(e.elt, frame, guard))
            return out
        raise Untranslatable("expression " + type(e).__name__)


def _load(target):
    if isinstance(target, ast.Name):
        return ast.Name(id=target.id, ctx=ast.Load())
    if isinstance(target, ast.Attribute):
        return ast.Attribute(value=target.value, attr=target.attr, ctx=ast.Load())
    raise Untranslatable("augmented assignment target")


# ---------------------------------------------------------------------------------------------------- queries

def concretize(term, subst):
    """value of a lifted term under a concrete assignment [(var, value)] - used for translator validation"""
    if isinstance(term, tuple):
        return tuple(concretize(t, subst) for t in term)
    if isinstance(term, GList):
        out = []
        for g, v in term.entries:
            if z3.is_true(z3.simplify(z3.substitute(g, *subst))):
                out.append(concretize(v, subst))
        return out
    if not is_sym(term):
        return term
    r = z3.simplify(z3.substitute(term, *subst))
    if z3.is_int_value(r):
        return r.as_long()
    if z3.is_true(r):
        return True
    if z3.is_false(r):
        return False
    if is_fp(r):
        import struct
        bits = z3.simplify(z3.fpToIEEEBV(r))
        if z3.is_bv_value(bits):
            return struct.unpack(">d", bits.as_long().to_bytes(8, "big"))[0]
    if z3.is_rational_value(r):
        return float(r.numerator_as_long()) / float(r.denominator_as_long())
    raise Untranslatable("term did not reduce to a value: %s" % r)


def outcome_of(outs, subst):
    """the single outcome (kind, concrete payload) whose guard holds under the assignment"""
    hit = []
    for g, kind, payload in outs:
        if z3.is_true(z3.simplify(z3.substitute(g, *subst))):
            hit.append((kind, concretize(payload, subst) if kind == "return" else payload))
    if len(hit) != 1:
        raise Untranslatable("%d outcomes hold under a concrete assignment" % len(hit))
    return hit[0]


class Queries:
    """Collects the SMT queries of one K obligation, with timing, models and (thorough tier) a second solver."""

    def __init__(self, timeout_s=120, second_solver=False, workdir=None):
        self.timeout_s = timeout_s
        self.second = second_solver
        self.workdir = workdir
        self.log = []
        self.solver_s = 0.0
        self.validated = 0
        self.second_agree = 0
        self.samples = []
        self.failed = None        # first query that did not give the expected answer: (name, kind, detail, model)

    def check(self, name, assertions, expect, want_model=False, logic=None):
        """expect: 'unsat' (property / unwinding / no-exception) or 'sat' (vacuity witnesses)"""
        s = z3.Solver()
        s.set("timeout", int(self.timeout_s * 1000))
        for a in assertions:
            s.add(a)
        t = time.time()
        r = str(s.check())
        dt = time.time() - t
        self.solver_s += dt
        rec = {"name": name, "expect": expect, "result": r, "time_s": round(dt, 3)}
        model = None
        if r == "sat":
            m = s.model()
            model = {d.name(): str(m[d]) for d in sorted(m.decls(), key=lambda d: d.name())}
            if expect == "sat" and len(self.samples) < 3:
                self.samples.append({"query": name, "model_of_pre": model})
        if self.second and r in ("sat", "unsat"):
            r2 = self._second(s, name)
            rec["second_solver"] = r2
            if r2 == r:
                self.second_agree += 1
            elif r2 in ("sat", "unsat"):
                rec["result"] = r = "disagree"
        self.log.append(rec)
        if r != expect and self.failed is None:
            kind = "cex" if (expect == "unsat" and r == "sat") else ("vacuous" if (expect == "sat" and r == "unsat") else "inconclusive")
            self.failed = (name, kind, "%s: expected %s, got %s" % (name, expect, r), model)
        return r, model

    def _second(self, solver, name):
        import os
        import subprocess
        import tempfile
        smt = solver.to_smt2()
        use_cvc5 = "FloatingPoint" in smt or "fp." in smt
        d = self.workdir or tempfile.gettempdir()
        os.makedirs(d, exist_ok=True)
        path = os.path.join(d, "q_%s.smt2" % hashlib.sha256((name + smt).encode()).hexdigest()[:12])
        with open(path, "w") as f:
            if use_cvc5:
                f.write("(set-logic ALL)\n")
            f.write(smt)
        cmd = ["cvc5", "--tlimit=%d" % int(self.timeout_s * 1000), path] if use_cvc5 else ["/usr/bin/z3", "-T:%d" % int(self.timeout_s), path]
        try:
            p = subprocess.run(cmd, capture_output=True, text=True, timeout=self.timeout_s + 30)
            out = p.stdout.strip().splitlines()
            if any("(error" in l for l in out) or not out:
                return "error"
            return out[0].strip()
        except Exception as e:
            return "error:" + type(e).__name__
        finally:
            try:
                os.remove(path)
            except OSError:
                pass
