#!/usr/bin/env python3
"""Prepare a round of seeded-change tasks for independent sub-agents (build-phase tooling, not a manifest command).

usage: tools/seed_round.py <round-dir under /tmp> <round-number>
For every property: a scratch git worktree of /repo at <round-dir>/<ID> holding PROPERTY.txt (the property text only)
and PROMPT.txt (the task).  Nothing from /verif's machinery is given to the sub-agent; from round 2 on the prompt lists,
as things NOT to repeat, the first lines of the notes earlier sub-agents wrote about their own changes.
"""
import glob
import json
import os
import subprocess
import sys

ROOT = os.path.dirname(os.path.dirname(os.path.abspath(__file__)))
HINTS = {
    8: "TWO COOPERATING SITES that each look fine alone (a helper changed in one place and a caller relying on its old "
       "contract in another; a value cached at one site and invalidated at another); state carried ACROSS timesteps or "
       "across calls (a memo, a counter, a 'dirty' flag, a lazily built index) that goes stale only after a specific "
       "sequence of three or more operations; a defect that depends on a SIZE threshold (only with four or more systems / "
       "agents / parameters / tags / cells per axis, or a radius of three or more, or a collection longer than some small "
       "constant); a defect that depends on the TYPE of an otherwise valid argument (a tuple where a list is usual, a "
       "range or generator, a dict view, a str subclass, a bool, a Fraction or Decimal, a numpy integer); a defect in how "
       "an operation behaves on an object that was REMOVED and then ADDED again, or moved between two owners; a defect in "
       "the keyword-only / default-argument path that the tests never take.",
    7: "a defect that needs RE-ENTRANCY: a user callback (system, cell generator, score function, decode hook, per-agent "
       "collector function, composite function) that itself calls back into the library (adds/removes agents or systems, "
       "queries neighbours, builds another parameter list, decodes, adds a tag) while the library is in the middle of the "
       "operation that invoked it; a defect between TWO objects of the same kind alive together (two environments of one "
       "model, two worlds, two collectors writing the same file or sharing an id in different models, two tag libraries, "
       "two decoders); a defect at a NEGATIVE or very large numeric value (negative priorities/starts/coordinates/leeways/"
       "ids/tags, values beyond 2**63, -0.0) or where an argument is passed POSITIONALLY instead of by keyword (or the "
       "other way round) and a parameter order was changed; a defect in what is read at the START versus the END of a "
       "timestep (state observed by collectors and systems of different priorities); a defect that shows only in the "
       "EXAMPLES the docstrings themselves give; a defect in file handling of collectors (modes 'w' and 'a', flush on the "
       "last step, a file name reused by a second collector, clear_records_on_write).",
    6: "a defect at the EDGE of a numeric range (start == end, frequency exactly 1 or 2, radius 0, an extent of exactly 1, "
       "leeway 0, one repetition, an empty or one-element collection); a defect in which a method MUTATES an argument or a "
       "returned container that the caller still uses (lists, dicts, arrays handed in or out); a defect that only shows "
       "through the RETURN VALUE of a method whose side effect stays right (or the other way round); a defect in the "
       "container protocol of Model / SystemManager / Environment / Agent (__getitem__, __contains__, __len__, __iter__, "
       "__bool__, get_* shorthands with their strict/lenient flags); a defect that needs the same operation applied TWICE "
       "(idempotence: registering, removing, completing, building, decoding, adding a tag again); a defect that only shows "
       "when an exception raised by the library itself is caught by the caller who then carries on (state half-updated "
       "before the raise); a defect in the interplay of inheritance (a subclass of a library class overriding one method "
       "while the library calls another).",
    5: "a defect that only shows on the SECOND use of an object (a ParameterList, Decoder, collector, environment or model "
       "that is reused after it was emptied / completed / handed over); a defect caused by a Python subtlety (mutable default "
       "argument, class attribute used where an instance attribute was meant, `is` versus `==`, bool being an int, numpy "
       "integer or float scalars passed where Python ints are usual, negative numbers with // and %, very large ints, "
       "iterator exhaustion, shallow versus deep copy, an over-broad or too-narrow except clause); a defect in a rarely "
       "passed optional argument or a deprecated alias; a defect that needs two different features of the library used "
       "together (e.g. tags with environment queries, class components with batching, decoding with collectors, cell "
       "components with agent movement); a defect that depends on the ORDER in which two independent objects were created "
       "or registered; a defect that needs an exception raised by user code which the caller handles before continuing.",
}


def main():
    rdir, rnd = sys.argv[1], int(sys.argv[2])
    known = {}
    for d in sorted(glob.glob(os.path.join(ROOT, "seeded", "*", ""))):
        n = os.path.basename(d.rstrip("/"))
        if n.startswith("_"):
            continue
        notes = open(d + "notes.txt").read().strip().splitlines() if os.path.exists(d + "notes.txt") else []
        known.setdefault(n.split("-")[0], []).append(" ".join(notes[:3])[:300])
    tmpl = open(os.path.join(ROOT, "tools", "seed_prompt.tmpl")).read()
    extra = '''
IMPORTANT - this is round @RND@. Other engineers have already proposed the following ideas for this property; do NOT reuse them or close variants of them (pick different code sites, different mechanisms, different triggering conditions):
@IDEAS@
Aim for changes that are harder to notice than those. Ideas that have NOT been used much yet include: @HINT@ Changes must still be plausible maintainer slips, and the demo must only use the library in ways a real user legitimately could.

Technical note: several engineers work in sibling worktrees of the same git repository. NEVER use `git stash` (the stash is shared between worktrees). To test your demo on unchanged code use: `git diff > @DIR@/@ID@/SEED/tmp.diff; git checkout -- ECAgent; <run>; git apply @DIR@/@ID@/SEED/tmp.diff`.
'''.replace('@RND@', str(rnd)).replace('@HINT@', HINTS.get(rnd, ''))
    os.makedirs(rdir, exist_ok=True)
    only = set(os.environ.get("SEED_ONLY", "").split()) or None
    for line in open(os.path.join(ROOT, "properties.jsonl")):
        p = json.loads(line)
        pid = p["id"]
        if only and pid not in only:
            continue
        wt = os.path.join(rdir, pid)
        subprocess.run(["git", "-C", "/repo", "worktree", "add", "--detach", wt, "HEAD"], capture_output=True)
        open(os.path.join(wt, "PROPERTY.txt"), "w").write(
            "Property %s: %s\n\nStatement: %s\n\nQuantified over: %s\n" % (pid, p["title"], p["statement"], p["quantifier"]["text"]))
        ideas = "\n".join("  - " + k for k in known.get(pid, [])) or "  (none recorded)"
        t = tmpl.replace("/tmp/seed/@ID@", "@DIR@/@ID@")
        if rnd > 1:
            t = t.replace("Your task: produce TWO", extra.replace('@IDEAS@', ideas) + "\nYour task: produce TWO")
        if os.environ.get("SEED_ONE"):
            t += "\n\nFOR THIS ROUND: produce only ONE change (A) instead of two - ignore every mention of B above. Spend at most about 15 minutes.\n"
        t = t.replace("@DIR@", rdir).replace("@ID@", pid)
        open(os.path.join(wt, "PROMPT.txt"), "w").write(t)
    print(len(os.listdir(rdir)), "worktrees prepared under", rdir)


if __name__ == "__main__":
    main()
