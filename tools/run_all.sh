#!/bin/bash
# usage: tools/run_all.sh quick|thorough [IDs...]   - runs the registered checks one after another against /repo, validates evidence
cd "$(dirname "$0")/.." || exit 2
tier=${1:-quick}; shift
ids=${@:-$(python3 -c "import json; print(' '.join(c['property_id'] for c in json.load(open('MANIFEST.json'))['checks']))")}
for id in $ids; do
  s=$(date +%s)
  out=$(./check $id $tier 2>&1); rc=$?
  e=$(( $(date +%s) - s ))
  v=$(/opt/veriftools/pyvenv/bin/python -c "
import json, jsonschema, sys
try:
    jsonschema.validate(json.load(open('evidence/$id.json')), json.load(open('/root/.vp/EVIDENCE.schema.json'))); print('evidence-valid')
except Exception as ex: print('EVIDENCE-INVALID', str(ex)[:200])")
  echo "$id rc=$rc ${e}s $v | $(echo "$out" | tail -1)"
  echo "$out" | grep -E "^(VIOLATION|INCONCLUSIVE|HARNESS-ERROR|KNOWN-FINDING)" | cut -c1-220
done
