#!/usr/bin/env python3
"""Format the outcome of `./check selftest` (file given as argv[1]) as the markdown table of DESIGN.md section 11."""
import json, os, re, sys
rows = []
for line in open(sys.argv[1]):
    m = re.match(r"^(\S+)\s+(C\d+) (CAUGHT|MISSED\(exit=\d\))( tests:[^0-9]*(\d+ passed|[^ ]+ failed[^s]*)[^ ]*.*?s)?\s+(\d+)s (.*)$", line.rstrip())
    if not m:
        continue
    name, prop, status, _, tests, secs, rest = m.groups()
    ob = re.search(r"obligation=(\S+) partition=(\{.*?\}) observed", rest)
    what = ""
    origin = "own mutant"
    if name.startswith("seeded/"):
        origin = "sub-agent"
        meta = json.load(open(os.path.join("/verif", name, "meta.json")))
        notes = meta.get("needs_to_manifest", "").strip().splitlines()
        what = (notes[0] if notes else "")[:110]
    else:
        what = open(os.path.join("/verif/mutants", name + ".patch")).read()
        plus = [l[1:].strip() for l in what.splitlines() if l.startswith("+") and not l.startswith("+++")]
        what = ("; ".join(plus))[:110]
    rows.append((name.replace("seeded/", ""), origin, prop, status, (ob.group(1) if ob else "-"), secs, what.replace("|", "/")))
print("| change | origin | property | result (quick tier) | first obligation that refutes it | s |")
print("|---|---|---|---|---|---|")
for r in rows:
    print("| %s | %s | %s | %s | `%s` | %s |" % r[:6])
