#!/usr/bin/env python3
"""Verify a sub-agent's seeded change independently in a fresh scratch worktree and store it under /verif/seeded/<id>/.

usage: tools/import_seed.py <src-dir with patch.diff demo.py notes.txt> <seed-id> <PROP>[,<PROP>]
Checks: patch applies to /repo HEAD; test suite passes with it; demo fails with it; demo passes without it.
"""
import json, os, shutil, subprocess, sys, tempfile, time

src, sid, props = sys.argv[1], sys.argv[2], sys.argv[3].split(",")
tmp = tempfile.mkdtemp(prefix="seedverify-", dir="/tmp")
wt = os.path.join(tmp, "r")
ran = []
def run(cmd, **kw):
    ran.append(" ".join(cmd))
    return subprocess.run(cmd, capture_output=True, text=True, **kw)
try:
    subprocess.run(["git", "-C", "/repo", "worktree", "add", "--detach", "-f", wt, "HEAD"], check=True, capture_output=True)
    env = {**os.environ, "PYTHONPATH": wt}
    base = run(["/venv/bin/python", os.path.join(src, "demo.py")], cwd=wt, env=env, timeout=600)
    ap = run(["git", "-C", wt, "apply", os.path.join(src, "patch.diff")])
    if ap.returncode:
        print("PATCH DOES NOT APPLY:", ap.stderr); sys.exit(1)
    t = run(["/venv/bin/python", "-m", "pytest", "-q", "-p", "no:cacheprovider", "tests"], cwd=wt, env=env)
    tline = (t.stdout.strip().splitlines() or ["?"])[-1]
    d = run(["/venv/bin/python", os.path.join(src, "demo.py")], cwd=wt, env=env, timeout=600)
    ok = base.returncode == 0 and t.returncode == 0 and d.returncode != 0
    print("demo on unchanged: exit", base.returncode, "| tests with patch:", tline, "| demo with patch: exit", d.returncode,
          "|", (d.stderr.strip().splitlines() or [""])[-1][:200])
    if not ok:
        print("NOT KEPT"); sys.exit(1)
    dst = os.path.join("/verif/seeded", sid)
    os.makedirs(dst, exist_ok=True)
    for f in ("patch.diff", "demo.py", "notes.txt"):
        if os.path.exists(os.path.join(src, f)):
            shutil.copy(os.path.join(src, f), os.path.join(dst, f))
    notes = open(os.path.join(src, "notes.txt")).read() if os.path.exists(os.path.join(src, "notes.txt")) else ""
    head = subprocess.run(["git", "-C", "/repo", "rev-parse", "--short", "HEAD"], capture_output=True, text=True).stdout.strip()
    json.dump({"property": props if len(props) > 1 else props[0], "origin": "independent sub-agent given only the property text and a scratch worktree",
               "needs_to_manifest": notes.strip(), "verified_against_repo_head": head,
               "what_i_ran": ["git worktree add --detach <tmp> HEAD", "demo.py on unchanged tree -> exit 0",
                              "git apply patch.diff", "pytest -q tests -> " + tline, "demo.py with patch -> exit %d" % d.returncode,
                              "worktree removed"],
               "demo_failure": (d.stderr.strip().splitlines() or [""])[-1][:300]}, open(os.path.join(dst, "meta.json"), "w"), indent=1)
    print("KEPT as", dst)
finally:
    subprocess.run(["git", "-C", "/repo", "worktree", "remove", "--force", wt], capture_output=True)
    shutil.rmtree(tmp, ignore_errors=True)
    subprocess.run(["git", "-C", "/repo", "worktree", "prune"], capture_output=True)
