#!/usr/bin/env python3
"""Generate /verif/MANIFEST.json from the table below (kept here so that the manifest stays consistent)."""
import json, os

ROOT = os.path.dirname(os.path.dirname(os.path.abspath(__file__)))
X = "CrossHair 0.0.110 symbolic execution of the real ECAgent functions (z3 5.1), obligations partitioned over 16 cores"
K = "own AST->z3 lifter (vf/kengine.py): bounded unrolling + state merging over the source of ECAgent/Environments.py, z3 5.1 (cvc5 / z3 4.8 second opinion in the thorough tier)"

CHECKS = {
 "C01": ("X", "4.C01", "one inductive step of add_system / remove_system / execute_systems from every sorted queue of <= 5/6 systems with unbounded integer priorities, plus bounded histories (<= 3/4 operations) from the empty manager against a list model",
         "queue length and history length are bounded; priorities, windows and timesteps are unbounded z3 Ints"),
 "C02": ("X", "4.C02", "the activation predicate and the +1 step decided for all integer start/end/frequency/timestep (two formulations), execute(n) for n <= 4/6 against the comprehension oracle and against n single steps, late registration of 2-3 systems",
         "frequency is concrete per partition wherever two mod-constraints meet (non-linear otherwise); n bounded"),
 "C03": ("X", "4.C03", "join/leave steps from every I3 state of <= 3 residents x 2 component types, rejected joins, bounded histories over join/leave/offline attach/detach/explicit register, two models alive, spatial worlds; known findings F1-F3 decided on their classes",
         "F1-F3 (resident attach/detach without register) are recorded findings: property refuted on the class, recorded behaviour confirmed, everything outside confirmed"),
 "C04": ("X", "4.C04", "every add/remove/lookup step from every state of <= 4 residents with identity snapshot on each rejected path, symbolic extents/positions for placement in continuous and grid arithmetic, real grid worlds, bounded histories",
         "float positions are covered by the K obligations of C08 (place_fp)"),
 "C05": ("X", "4.C05", "one timestep in which 1-2 symbolic systems remove themselves/others, replace a system under the same id, re-register the same object or register new systems of any priority - driven as single steps or one execute(2), optionally while every system also steps another model - against reference semantics over the start-of-timestep queue",
         "<= 4 systems, <= 2 structural actions per timestep"),
 "C06": ("X", "4.C06", "completion at any queue position and timestep; ONE later request of each kind from ANY completed model (inductive step covers every later history); batch/search runners stop at min(limit, completion)",
         "<= 4 systems; Model._status is only reachable through complete()"),
 "C07": ("X", "4.C07", "2-safety non-interference: picks/shuffles equal an oracle over the model's own symbolic stream while every global generator and every set-iteration order is havocked by independent symbolic streams, also after the environment changed owner, after complete() and with another model active; seed plumbing of Model.__init__ and of the batch/search runners for every seed; system order after removals under pinned hash seeds",
         "determinism of random.Random itself and process identity are outside (ambient interpreter state); PYTHONHASHSEED is enumerated (pinned per partition), not symbolic"),
 "C08": ("X+K", "4.C08", "move/move_to/add_agent decided for all integer extents, positions, deltas (wrap and clamp, continuous and grid offset, real Line/Grid/DiscreteWorld objects); on IEEE doubles the clamp, bounds and placement kernels are lifted from source and decided on Float64",
         "float wrapping (%) is outside: no tractable encoding; NaN/inf excluded"),
 "C09": ("K+X", "4.C09", "id injectivity and range for ALL shapes (non-linear, no shape bound) on the formula lifted from source; table inverse per concrete shape through the real pandas table; get_cell range test and row selection",
         "pandas positional row access (iloc) is trusted/stubbed by a list-backed stand-in"),
 "C10": ("K+X", "4.C10", "Moore/von Neumann neighbour lists lifted from source with loops unrolled 2R+1 times: exact membership (count of a symbolic probe cell), ascending order, id form == coordinate form, for all extents with radius <= R or all radii with extents <= 2R+1; unwinding assertions discharged",
         "radius bound R = 2/4; wrapping excluded by the property"),
 "C11": ("X", "4.C11", "every source kind (callable, nesting callable, list with solver-chosen mixed element kinds, ndarray, ConstantGenerator with scalar/sequence constants) stores each cell's own value and is independent of later changes to the caller's list/array; add/remove histories over two same-shaped worlds built by the real constructors; add/remove histories incl. failing adds and the hostile name 'pos'; LookupGenerator on tables of the world's dimensionality (finding F4 for 1-D/2-D worlds); None among numbers is stored as NaN (finding F7, decided on its class)",
         "decided relative to a stand-in implementing pandas' contract for the DataFrame operations ECAgent uses, incl. the measured dtype-inference rule for None among numbers (worst case where the contract leaves a choice: an assigned ndarray may be aliased); pandas' own internals are outside"),
 "C12": ("X+K", "4.C12", "exact box membership, join order and [] for 1-2(+1) agents with all positions, query points and four leeways symbolic ints; real-valued box on the lifted source (K); known finding F5 (no seam-aware matching) decided on its class",
         "double rounding at box faces is outside (Float64 lemma does not finish)"),
 "C13": ("X", "4.C13", "template and tag filters exact for <= 3 agents with symbolic component subsets and unbounded tags (0 included); pick = spec[r mod k] and shuffle = Fisher-Yates for a symbolic generator stream; histories with every query pattern",
         "random.Random.choice/shuffle run unmodified on a stubbed core draw"),
 "C14": ("X", "4.C14", "build() against the nested-loop oracle for <= 3 parameters of symbolic kind (int/None/str/list/tuple/range/ndarray) and length <= 2/3 with opaque symbolic elements; repeatability/independence; every declaration step",
         "numpy elements concrete (C boundary)"),
 "C15": ("X", "4.C15", "batch_run for every completion order a pool honouring the documented contract can produce (symbolic permutation), serial product order, step limit vs completion, error propagation at every position, collectors validation",
         "multiprocessing itself, pickling and OS scheduling are replaced by the FakePool contract (trusted)"),
 "C16": ("X", "4.C16", "aggregates min/max/sum for all ints, dispatch to statistics for mean/variance, best = first optimum for <= 4 combinations with unbounded integer aggregates (ties, negative, beyond maxsize), repetitions, serial == pool; finding F6 on its class",
         "arithmetic inside statistics.mean/variance is not ECAgent code; float scores outside"),
 "C17": ("X", "4.C17", "one collection from any records list/population/composite/timestep; windows with a churning population; file collector conservation written ++ held == collected after every step for ALL write_count >= 0",
         "in-memory file contract; clear_records_on_write=True"),
 "C18": ("X", "4.C18", "event log of decode() equals the documented lifecycle for every subset of hooks, <= 2 systems, <= 2 groups of <= 2/3, unbounded priorities/windows; repeated decoding across two modules with identical names; completion during decoding",
         "JSON/file I/O outside (open_file overridden)"),
 "C19": ("X", "4.C19", "add/lookup/itemize/len agreement after adding ANY name of a pool computed from the code (every attribute of the library and the module), ids outside the range for all ints, module-level library, isolation",
         "names are drawn from a code-derived pool of ~120 names, not all strings"),
 "C20": ("X", "4.C20", "class-component attach/detach on each of 6 classes from symbolic per-class states, API-only histories from fresh classes, default tags with unbounded ints and explicit tags",
         "hierarchies of depth <= 3"),
}

def main():
    claimed = [p for p in sorted(CHECKS) if os.path.exists(os.path.join(ROOT, "vf", "harness", p.lower() + ".py"))]
    na = []
    checks = []
    for pid in claimed:
        eng, ref, text, note = CHECKS[pid]
        checks.append({
            "property_id": pid,
            "quick_cmd": "./check %s quick" % pid,
            "thorough_cmd": "./check %s thorough" % pid,
            "evidence_file": "/verif/evidence/%s.json" % pid,
            "replay_cmd_template": "./check %s --replay {path}" % pid,
            "engine": {"X": "crosshair", "K": "klift", "X+K": "crosshair+klift", "K+X": "klift+crosshair"}[eng],
            "level_claimed": {"category": "model_checking",
                              "text": "Bounded symbolic model checking of the real code: " + text + ". Within the stated bounds the solver's verdict covers every value; nothing is sampled.",
                              "design_ref": "DESIGN.md section " + ref},
            "level_note": note + ". Trusted: CPython 3.12, z3 5.1, CrossHair's modelling of int/bool/list/dict (every counterexample is replayed concretely before it is reported), the listed stubs.",
            "technique": "solver-based checking of the real code: " + (X if eng == "X" else K + " + " + X),
        })
    for pid in sorted(CHECKS):
        if pid not in claimed:
            na.append({"property_id": pid, "reason": "check not built yet"})
    man = {
        "version": 1,
        "setup_cmd": "./check setup",
        "hooks": {"guard": "ECAGENT_VERIF", "enable": "no source hooks were needed: harnesses inject stubs into module attributes of the imported real modules at run time; checks export ECAGENT_VERIF=1 for uniformity",
                  "baseline_off_cmd": "cd /repo && /venv/bin/python -m pytest -ra -q -p no:cacheprovider --timeout=900 --continue-on-collection-errors",
                  "source_commits": [], "add_only": True},
        "engines": [
            {"name": "crosshair", "path": "vf/xworker.py", "serves_properties": [c["property_id"] for c in checks],
             "kind_free_text": X},
            {"name": "klift", "path": "vf/kengine.py", "serves_properties": ["C08", "C09", "C10", "C12"], "kind_free_text": K},
        ],
        "checks": checks,
        "not_applicable": na,
        "notes": "All checks read the code from /repo's working tree at start (VERIF_REPO overrides for the self-test). Exit 0 = held on everything explored (inconclusive obligations are printed and lower `discharged`), 1 = reproduced counterexample not covered by known_findings.json, 2 = harness error. `./check selftest` applies mutants/ and seeded/ to scratch worktrees and expects VIOLATION.",
    }
    json.dump(man, open(os.path.join(ROOT, "MANIFEST.json"), "w"), indent=1)
    print("claimed:", " ".join(claimed), "| not claimed:", " ".join(x["property_id"] for x in na))

main()
