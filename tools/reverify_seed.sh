#!/bin/bash
# usage: tools/reverify_seed.sh <seed-id>...  - re-checks on the CURRENT /repo HEAD: patch applies, tests pass with it, demo fails with it / passes without
for s in "$@"; do
  d=/verif/seeded/$s
  wt=$(mktemp -d /tmp/rv-XXXX)/r
  git -C /repo worktree add --detach "$wt" HEAD >/dev/null 2>&1
  base=$(cd $wt && PYTHONPATH=$wt timeout 600 /venv/bin/python $d/demo.py >/dev/null 2>&1; echo $?)
  if git -C $wt apply $d/patch.diff 2>/dev/null; then
    t=$(cd $wt && PYTHONPATH=$wt /venv/bin/python -m pytest -q -p no:cacheprovider tests 2>&1 | tail -1)
    dm=$(cd $wt && PYTHONPATH=$wt timeout 600 /venv/bin/python $d/demo.py >/dev/null 2>&1; echo $?)
    echo "$s: demo-unchanged=$base tests='$t' demo-with-patch=$dm"
  else
    echo "$s: PATCH DOES NOT APPLY"
  fi
  git -C /repo worktree remove --force "$wt" >/dev/null 2>&1; rm -rf "$(dirname $wt)"; git -C /repo worktree prune
done
