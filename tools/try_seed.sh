#!/bin/bash
# dev helper: tools/try_seed.sh <seed-id|mutant-name> <PROP> [check args...]   (applies the change to a scratch worktree, runs the check, removes it)
set -u
seed=$1; prop=$2; shift 2
root=$(cd "$(dirname "$0")/.." && pwd)
if [ -f "$root/seeded/$seed/patch.diff" ]; then patch="$root/seeded/$seed/patch.diff"; else patch="$root/mutants/$seed.patch"; fi
tmp=$(mktemp -d /tmp/ecagent-try-XXXXXX)
git -C /repo worktree add --detach -f "$tmp/r" HEAD >/dev/null 2>&1
git -C "$tmp/r" apply --whitespace=nowarn "$patch" || echo "PATCH DOES NOT APPLY"
VERIF_REPO="$tmp/r" "$root/check" "$prop" quick "$@" 2>&1 | grep -v "^WARNING" | cut -c1-600
echo "exit=${PIPESTATUS[0]}"
git -C /repo worktree remove --force "$tmp/r"; rm -rf "$tmp"; git -C /repo worktree prune
